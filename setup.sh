#!/bin/sh
# Build the fact extractors and pre-compile /repo's dependencies for the nightly check (offline).
set -e
cd "$(dirname "$0")"
export CARGO_NET_OFFLINE=true
python3 rules/facts.py --setup
