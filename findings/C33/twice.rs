use signedsource::{is_valid_signature, sign_file, SIGNING_TOKEN};
#[test]
fn file_with_two_tokens_verifies() {
    let src = format!("// {SIGNING_TOKEN}\nfn a() {{}}\n// {SIGNING_TOKEN}\n");
    let signed = sign_file(&src);
    assert!(is_valid_signature(&signed), "C33: signed file does not verify");
    assert!(!is_valid_signature(&signed.replace("fn a", "fn b")), "an edit must break the signature");
    let one = sign_file(&format!("// {SIGNING_TOKEN}\nfn a() {{}}\n"));
    assert!(is_valid_signature(&one));
}
