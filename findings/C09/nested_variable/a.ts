import { iso } from '@iso';
export const A = iso(`
  field Query.A($n: String) {
    friend(filter: { name: $n }) {
      name
    }
  }
`)(() => 1);
export const e = iso(`entrypoint Query.A`);
