import { iso } from '@iso';
export const A = iso(`
  field Query.A {
    n(x: -5)
    s(q: "it's")
  }
`)(() => 1);
export const e = iso(`entrypoint Query.A`);
export const P = iso(`
  pointer Query.P to Friend {
  }
`)(() => 1);
export const B = iso(`
  field Query.B {
    P {
    }
  }
`)(() => 1);
export const e2 = iso(`entrypoint Query.B`);
