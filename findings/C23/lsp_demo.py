#!/usr/bin/env python3
"""Drive the real language server (isograph_cli lsp) over stdio and check that the positions it sends are UTF-16
columns addressing the right text.  Usage: lsp_demo.py <path to isograph_cli> ; exit 1 on a C23 violation."""
import json, os, subprocess, sys, tempfile, time

cli = sys.argv[1]
d = tempfile.mkdtemp(prefix="c23demo")
os.makedirs(d + "/src")
open(d + "/schema.graphql", "w").write("type Query {\n  hello: String\n  bye: String\n}\n")
open(d + "/isograph.config.json", "w").write('{ "project_root": "./src", "schema": "./schema.graphql" }')
# non-ASCII text before the literal, on the same line and on an earlier line
text = ("import { iso } from '@iso';\n// héllo wörld ≥ 2\n"
        "const é = 'ééé'; export const Foo = iso(`field Query.Foo \"ééé≥\" { hello, bye, }`)(() => 1);\n")
open(d + "/src/a.ts", "w", encoding="utf-8").write(text)
uri = "file://" + d + "/src/a.ts"

p = subprocess.Popen([cli, "lsp", "--config", d + "/isograph.config.json"], cwd=d, stdin=subprocess.PIPE,
                     stdout=subprocess.PIPE, stderr=subprocess.DEVNULL)


def send(msg):
    b = json.dumps(msg).encode()
    p.stdin.write(b"Content-Length: %d\r\n\r\n" % len(b) + b)
    p.stdin.flush()


def recv(want_id):
    while True:
        hdr = b""
        while not hdr.endswith(b"\r\n\r\n"):
            c = p.stdout.read(1)
            if not c:
                raise SystemExit("server closed the stream")
            hdr += c
        n = int([l for l in hdr.split(b"\r\n") if l.lower().startswith(b"content-length")][0].split(b":")[1])
        m = json.loads(p.stdout.read(n))
        if m.get("id") == want_id:
            return m


send({"jsonrpc": "2.0", "id": 1, "method": "initialize", "params": {"processId": None, "rootUri": "file://" + d, "capabilities": {}}})
recv(1)
send({"jsonrpc": "2.0", "method": "initialized", "params": {}})
send({"jsonrpc": "2.0", "method": "textDocument/didOpen", "params": {"textDocument": {"uri": uri, "languageId": "typescript", "version": 1, "text": text}}})
send({"jsonrpc": "2.0", "id": 2, "method": "textDocument/semanticTokens/full", "params": {"textDocument": {"uri": uri}}})
r2 = recv(2)
print("semanticTokens response:", json.dumps(r2)[:300])
toks = (r2.get("result") or {}).get("data", [])
send({"jsonrpc": "2.0", "id": 3, "method": "textDocument/formatting", "params": {"textDocument": {"uri": uri}, "options": {"tabSize": 2, "insertSpaces": True}}})
r3 = recv(3)
print("formatting response:", json.dumps(r3)[:300])
edits = r3.get("result")
L2 = text.split("\n")[2]
hcol = len(L2[:L2.index("hello")].encode("utf-16-le")) // 2 + 2
send({"jsonrpc": "2.0", "id": 4, "method": "textDocument/hover", "params": {"textDocument": {"uri": uri}, "position": {"line": 2, "character": hcol}}})
r4 = recv(4)
print("hover response:", json.dumps(r4)[:300])
hover = r4.get("result")
p.kill()

lines = text.split("\n")


def u16(s):
    return len(s.encode("utf-16-le")) // 2


bad = []
# decode the token stream; every token must cover a non-blank piece of the literal and lie inside it
line = col = 0
decoded = []
for i in range(0, len(toks), 5):
    dl, ds, ln = toks[i], toks[i + 1], toks[i + 2]
    line += dl
    col = ds if dl else col + ds
    decoded.append((line, col, ln))
lit_line = 2
L = lines[lit_line]
units = L.encode("utf-16-le")
for (ln_, c, n) in decoded:
    piece = units[2 * c:2 * (c + n)].decode("utf-16-le") if ln_ == lit_line else None
    if piece is None or piece.strip() == "" or piece not in ("field", "Query", ".", "Foo", "{", "}", "hello", "bye", ",", "\"ééé≥\""):
        bad.append("semantic token (line %d, col %d, len %d) covers %r" % (ln_, c, n, piece))
expected_start = u16(L[:L.index("field")])
if not decoded or decoded[0][:2] != (lit_line, expected_start):
    bad.append("first token at %s, expected (%d, %d)" % (decoded[:1], lit_line, expected_start))
for e in edits or []:
    r = e["range"]
    s_, e_ = r["start"], r["end"]
    want_s = u16(L[:L.index("field")])
    want_e = u16(L[:L.index("`)(")])
    if (s_["line"], s_["character"], e_["line"], e_["character"]) != (lit_line, want_s, lit_line, want_e):
        bad.append("formatting edit range %s, expected %d:%d-%d:%d" % (r, lit_line, want_s, lit_line, want_e))
if not hover or "hello" not in json.dumps(hover):
    bad.append("hover on `hello` (line 2, utf-16 col %d) did not resolve to the field: %s" % (hcol, json.dumps(hover)[:120]))
for b in bad:
    print("C23 VIOLATION:", b)
print("tokens:", decoded)
sys.exit(1 if bad else 0)
