use common_lang_types::{Span, text_with_carats};
#[test]
fn one_caret_per_character_on_non_ascii_line() {
    let text = "héllo wörld";
    // the span covers "wörld" (bytes 7..13)
    let start = text.find('w').unwrap() as u32;
    let (out, _) = text_with_carats(text, None, Span::new(start, text.len() as u32), false);
    let lines: Vec<&str> = out.split('\n').collect();
    assert_eq!(lines[0], text);
    assert_eq!(lines[1], "      ^^^^^", "C31: carets must sit under the 5 characters of the span");
}
