#!/bin/bash
# usage: other_crashes.sh <isograph_cli>
# Two further crashes of the pinned tree that NO rule of the C08 check reaches (each is an
# `expect("... indicative of a bug in Isograph")` whose invariant validation does not establish).
# Found by an independent sub-agent while probing; reproduced here; documented in DESIGN.md 8.7.
set -u
CLI=${1:-/repo/target/debug/isograph_cli}
run() { # name schema source
  W=$(mktemp -d /var/tmp/c08demo.XXXX); mkdir -p "$W/src"
  echo '{ "project_root": "./src", "schema": "./schema.graphql" }' > "$W/isograph.config.json"
  printf '%s\n' "$2" > "$W/schema.graphql"; printf '%s\n' "$3" > "$W/src/a.ts"
  (cd "$W" && "$CLI" --config ./isograph.config.json > out.txt 2>&1; echo "$1: exit status $?"; sed 's/\x1b\[[0-9;]*m//g' out.txt | grep -iE "panicked|Expected" | head -2)
  rm -rf "$W"
}
run "loadable client field on a type without id" 'type Stats { count: Int }
type Query { stats: Stats }' 'import { iso } from "./__isograph/iso";
export const S = iso(`field Stats.S { count, }`)(() => 1);
export const A = iso(`field Query.A { stats { S @loadable, }, }`)(() => 1);
export const e = iso(`entrypoint Query.A`);'
run "entrypoint on a non-root type whose field declares no id variable" 'type User { id: ID!, name: String }
type Query { me: User }' 'import { iso } from "./__isograph/iso";
export const Avatar = iso(`field User.Avatar { name, }`)(() => 1);
export const e = iso(`entrypoint User.Avatar`);'
