#!/bin/bash
# usage: cyclic_client_fields.sh <isograph_cli>   — two client fields selecting each other
set -u
CLI=${1:-/repo/target/debug/isograph_cli}
W=$(mktemp -d /var/tmp/c08demo.XXXX); trap 'rm -rf "$W"' EXIT
mkdir -p "$W/src"
echo '{ "project_root": "./src", "schema": "./schema.graphql" }' > "$W/isograph.config.json"
printf 'type Query { me: String }\n' > "$W/schema.graphql"
cat > "$W/src/a.ts" <<'TS'
import { iso } from "./__isograph/iso";
export const A = iso(`field Query.A { me, B, }`)(() => 1);
export const B = iso(`field Query.B { me, A, }`)(() => 1);
export const e = iso(`entrypoint Query.A`);
TS
cd "$W" && "$CLI" --config ./isograph.config.json > out.txt 2>&1
rc=$?
sed 's/\x1b\[[0-9;]*m//g' out.txt | grep -iE "overflow|panick|Success|error|cycl" | head -5
echo "exit status: $rc"
test $rc -le 1
