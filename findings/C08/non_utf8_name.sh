#!/bin/bash
# usage: non_utf8_name.sh <isograph_cli>   — a source file whose name is not valid UTF-8
set -u
CLI=${1:-/repo/target/debug/isograph_cli}
W=$(mktemp -d /var/tmp/c08demo.XXXX); trap 'rm -rf "$W"' EXIT
mkdir -p "$W/src"
echo '{ "project_root": "./src", "schema": "./schema.graphql" }' > "$W/isograph.config.json"
printf 'type Query { me: String }\n' > "$W/schema.graphql"
printf 'import { iso } from "./__isograph/iso";\nexport const A = iso(`field Query.A { me, }`)(() => 1);\n' > "$W/src/a.ts"
printf 'export const x = 1;\n' > "$W/src/$(printf 'bad\xff').ts"
cd "$W" && "$CLI" --config ./isograph.config.json 2>&1 | sed 's/\x1b\[[0-9;]*m//g' | grep -iE "panick|Success|error|stringable" | head -5
test ${PIPESTATUS[0]} -le 1   # 0 = compiled, 1 = diagnostics; 101 / signal = crash
