#!/bin/bash
# usage: recursive_input_type.sh <isograph_cli> — a variable typed with a self-referential input type
set -u
CLI=${1:-/repo/target/debug/isograph_cli}
W=$(mktemp -d /var/tmp/c08demo.XXXX); trap 'rm -rf "$W"' EXIT
mkdir -p "$W/src"
echo '{ "project_root": "./src", "schema": "./schema.graphql" }' > "$W/isograph.config.json"
printf 'input F { name: String, and: [F!] }\ntype Query { things(filter: F): String }\n' > "$W/schema.graphql"
cat > "$W/src/a.ts" <<'TS'
import { iso } from "./__isograph/iso";
export const A = iso(`field Query.A($f: F) { things(filter: $f), }`)(() => 1);
export const e = iso(`entrypoint Query.A`);
TS
cd "$W" && "$CLI" --config ./isograph.config.json > out.txt 2>&1
rc=$?
sed 's/\x1b\[[0-9;]*m//g' out.txt | grep -iE "overflow|panicked|Success|rror" | head -3
echo "exit status: $rc"
test $rc -le 1
