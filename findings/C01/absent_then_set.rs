use std::sync::atomic::{AtomicUsize, Ordering};
use pico::{Database, Storage};
use pico_macros::{Db, Singleton, Source, memo};

static RUNS: AtomicUsize = AtomicUsize::new(0);

#[derive(Db, Default)]
struct TestDatabase { storage: Storage<Self> }

#[derive(Debug, Clone, PartialEq, Eq, Singleton)]
struct S(u32);
#[derive(Debug, Clone, PartialEq, Eq, Source)]
struct Other { #[key] k: u32, v: u32 }

#[memo]
fn read_s(db: &TestDatabase) -> Option<u32> {
    RUNS.fetch_add(1, Ordering::SeqCst);
    db.get_singleton::<S>().map(|s| s.0)
}

#[test]
fn absent_then_set() {
    let mut db = TestDatabase::default();
    assert_eq!(*read_s(&db), None);
    assert_eq!(RUNS.load(Ordering::SeqCst), 1);
    // unrelated changes while S is still absent must not re-run read_s
    db.set(Other { k: 1, v: 1 });
    assert_eq!(*read_s(&db), None);
    db.set(Other { k: 1, v: 2 });
    assert_eq!(*read_s(&db), None);
    assert_eq!(RUNS.load(Ordering::SeqCst), 1, "C02: still-absent source must not cause re-execution");
    db.set(S(7));
    assert_eq!(*read_s(&db), Some(7), "C01: first write of an absent source must invalidate");
    assert_eq!(RUNS.load(Ordering::SeqCst), 2);
    db.remove_singleton::<S>();
    assert_eq!(*read_s(&db), None);
    db.set(S(8));
    assert_eq!(*read_s(&db), Some(8));
}
