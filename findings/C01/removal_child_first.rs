//! NOT part of seeded change A or B. Side observation: this history already violates
//! C01 on the UNMODIFIED worktree HEAD (597cb8d). Copy to crates/pico/tests/ and run
//! `cargo nextest run -p pico --offline --test preexisting_removal_child_first`.
//!
//! Mechanism: after the singleton is removed, `config_value` is re-executed and its only
//! dependency is AbsentSource, registered with time_updated = Epoch::new() (1), so the
//! node's time_updated drops to 1. Because `config_value` was called on its own first, it
//! is already verified in the current epoch when `describe_config` asks whether it changed:
//! `rev.time_updated (1) > since` is false and execute_memoized_function reports
//! ReusedMemoizedValue, so `describe_config` keeps its stale value.
use pico::{Database, Storage};
use pico_macros::{Db, Singleton, memo};

#[derive(Db, Default)]
struct TestDatabase {
    storage: Storage<Self>,
}

#[derive(Debug, Clone, PartialEq, Eq, Singleton)]
struct Config {
    pub value: String,
}

#[memo]
fn config_value(db: &TestDatabase) -> Option<String> {
    db.get_singleton::<Config>().map(|c| c.value.clone())
}

#[memo]
fn describe_config(db: &TestDatabase) -> String {
    format!("{:?}", config_value(db))
}

#[test]
fn removal_then_child_first() {
    let mut db = TestDatabase::default();
    db.set(Config { value: "x".to_string() });
    assert_eq!(describe_config(&db).as_str(), "Some(\"x\")");
    db.remove_singleton::<Config>();
    assert_eq!(*config_value(&db), None);
    assert_eq!(describe_config(&db).as_str(), "None"); // fails on unmodified HEAD: Some("x")
}
