use common_lang_types::TextSource;
use intern::string_key::Intern;
use isograph_lang_parser::parse_iso_literal;
fn parse(text: &str) -> bool {
    let text_source = TextSource { relative_path_to_source_file: "dummy.ts".intern().into(), span: None };
    parse_iso_literal(text.to_string(), "dummy.ts".intern().into(), Some("Foo".to_string()), text_source).is_ok()
}
#[test]
fn parser_accepts_flexible_header_spacing() {
    assert!(parse("\r\n  field Query.foo {\r\n a\r\n}\r\n"), "CRLF");
    assert!(parse("field  Query.foo {\n a\n}"), "two spaces");
    assert!(parse("field Query . foo {\n a\n}"), "spaces around dot");
    assert!(parse("field\tQuery.foo {\n a\n}"), "tab");
    assert!(parse("entrypoint Query.Foo@lazyLoad"), "directive without space");
    assert!(parse("field Query.foo{\n a\n}"), "brace without space");
}
