import { iso } from '@iso';
export const A = iso(`
  field Query.A {
    n(x: -5)
  }
`)(() => 1);
export const e = iso(`
  entrypoint Query.A
`);
