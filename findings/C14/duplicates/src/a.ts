import { iso } from '@iso';
export const A = iso(`
  field Query.A {
    hello
  }
`)(() => 1);
