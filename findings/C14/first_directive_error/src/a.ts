export const x = 1;
