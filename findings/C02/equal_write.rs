use std::sync::atomic::{AtomicUsize, Ordering};
use pico::{Database, Storage};
use pico_macros::{Db, Source, memo};

static RUNS: AtomicUsize = AtomicUsize::new(0);

#[derive(Db, Default)]
struct TestDatabase { storage: Storage<Self> }

#[derive(Debug, Clone, PartialEq, Eq, Source)]
struct A { #[key] k: u32, v: u32 }
#[derive(Debug, Clone, PartialEq, Eq, Source)]
struct B { #[key] k: u32, v: u32 }

#[memo]
fn read_a(db: &TestDatabase, id: pico::SourceId<A>) -> u32 {
    RUNS.fetch_add(1, Ordering::SeqCst);
    db.get(id).v
}

#[test]
fn equal_write_is_inert() {
    let mut db = TestDatabase::default();
    let a = db.set(A { k: 1, v: 1 });
    db.set(B { k: 1, v: 1 });
    assert_eq!(*read_a(&db, a), 1);
    assert_eq!(RUNS.load(Ordering::SeqCst), 1);
    db.set(B { k: 1, v: 2 }); // unrelated change: epoch advances
    db.set(A { k: 1, v: 1 }); // equal-value write of A
    assert_eq!(*read_a(&db, a), 1);
    assert_eq!(RUNS.load(Ordering::SeqCst), 1, "C02: equal-value write must not re-run readers");
}
