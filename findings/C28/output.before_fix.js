import _Query__Plain from "./__isograph/Query/Plain/entrypoint.ts";
import _Query__Tight@lazyLoad from "./__isograph/Query/Tight@lazyLoad/entrypoint.ts";
export const Plain = ()=>1;
export const Spaced = iso(`field Query . Spaced { friend { name, }, }`)(()=>2);
export const Tight = ()=>3;
const e0 = _Query__Plain;
const e1 = iso(`entrypoint Query . Spaced`);
const e2 = iso(`entrypoint Query. Spaced`);
const e3 = _Query__Tight@lazyLoad;
