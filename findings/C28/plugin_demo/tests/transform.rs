// Same harness as /repo/crates/swc_isograph_plugin/tests/transform.rs, pointed at the C28 fixture.
use isograph_config::IsographProjectConfig;
use std::{fs::read_to_string, path::{Path, PathBuf}};
use swc_ecma_parser::{EsSyntax, Syntax};
use swc_ecma_transforms_testing::{FixtureTestConfig, test_fixture};
use swc_isograph_plugin::compile_iso_literal_visitor;

#[testing::fixture("tests/fixtures/base/*/input.js")]
fn run(input: PathBuf) {
    let root_dir = input.parent().unwrap();
    let isograph_config = read_to_string(root_dir.join("isograph.config.json")).unwrap();
    let config: IsographProjectConfig = serde_json::from_str(&isograph_config).unwrap();
    let output = root_dir.join("output.js");
    let filename = format!("{}/src/components/HomeRoute.tsx", root_dir.display());
    test_fixture(
        Syntax::Es(EsSyntax { jsx: true, ..Default::default() }),
        &|_| compile_iso_literal_visitor(&config, Path::new(&filename), Path::new(root_dir), None),
        &input,
        &output,
        FixtureTestConfig { module: Some(true), allow_error: true, ..Default::default() },
    );
}
