import { iso } from './__isograph/iso';
export const Plain = iso(`field Query.Plain { friend { name, }, }`)(() => 1);
export const Spaced = iso(`field Query . Spaced { friend { name, }, }`)(() => 2);
export const Tight = iso(`field Query.Tight@component{ friend { name, }, }`)(() => 3);
const e0 = iso(`entrypoint Query.Plain`);
const e1 = iso(`entrypoint Query . Spaced`);
const e2 = iso(`entrypoint Query. Spaced`);
const e3 = iso(`entrypoint Query.Tight@lazyLoad`);
