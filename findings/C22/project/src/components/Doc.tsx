import { iso } from '@iso';
export const Placeholder = iso(`
  field User.Placeholder { name }
`)(() => null);
