import { iso } from '@iso';
export const Nom = iso(`
  field User.Nom {
    friends { id, },
    name
  }
`)(() => null);
