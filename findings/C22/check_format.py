#!/usr/bin/env python3
"""
Property check for the isograph language server's document formatter (C22).

usage: check_format.py <path/to/isograph_cli> <project dir> <document.tsx> [...]

For every document given, the script
  1. starts `isograph_cli lsp --config <project>/isograph.config.json`,
     opens the document (textDocument/didOpen) under the path
     <project>/src/components/Doc.tsx and requests textDocument/formatting;
  2. applies the returned TextEdits the way an LSP client does (line / UTF-16
     column positions);
  3. checks that
       (a) one edit is returned per iso literal in the document,
       (b) applying the edits changes nothing outside of the literals, i.e. the
           result equals the original document with each literal's text (the
           text between the backticks) replaced by the edit's newText,
       (c) the formatted literal has the same token sequence as the original one
           (ignoring whitespace and the optional commas),
       (d) the formatted document is accepted again (the server answers a second
           formatting request with one edit per literal; literals that do not
           parse get no edit), and
       (e) the second formatting changes nothing (idempotence).
Exit status 0 iff all checks pass for all documents.
"""
import json
import os
import re
import subprocess
import sys
import threading

LITERAL_RE = re.compile(r"iso\(\s*`([^`]+)`")
TOKEN_RE = re.compile(
    r'"""(?:.|\n)*?"""|"(?:\\.|[^"\\\n])*"|[A-Za-z_][A-Za-z0-9_]*|-?[0-9]+|[@{}\[\]():$=!.,]'
)


def tokens(literal):
    return [t for t in TOKEN_RE.findall(literal) if t != ","]


def utf16_col_to_index(line, col):
    units = 0
    for i, ch in enumerate(line):
        if units >= col:
            return i
        units += 2 if ord(ch) > 0xFFFF else 1
    return len(line)


def pos_to_offset(text, pos):
    lines = text.split("\n")
    if pos["line"] >= len(lines):
        return len(text)
    off = sum(len(l) + 1 for l in lines[: pos["line"]])
    return off + utf16_col_to_index(lines[pos["line"]], pos["character"])


def apply_edits(text, edits):
    spans = sorted(
        (
            (pos_to_offset(text, e["range"]["start"]), pos_to_offset(text, e["range"]["end"]), e["newText"])
            for e in edits
        ),
        reverse=True,
    )
    for s, e, new in spans:
        text = text[:s] + new + text[e:]
    return text


class Lsp:
    def __init__(self, binary, project):
        config = os.path.join(project, "isograph.config.json")
        self.p = subprocess.Popen(
            [binary, "lsp", "--config", config],
            stdin=subprocess.PIPE,
            stdout=subprocess.PIPE,
            stderr=subprocess.DEVNULL,
            cwd=project,
        )
        self.id = 0
        # never wait on the server for more than a minute
        self.killer = threading.Timer(60, self.p.kill)
        self.killer.start()

    def send(self, obj):
        body = json.dumps(obj).encode()
        self.p.stdin.write(b"Content-Length: %d\r\n\r\n" % len(body) + body)
        self.p.stdin.flush()

    def read(self):
        length = None
        while True:
            line = self.p.stdout.readline()
            if not line:
                raise EOFError("language server closed the connection (crashed or timed out)")
            line = line.strip()
            if not line:
                break
            if line.lower().startswith(b"content-length:"):
                length = int(line.split(b":")[1])
        return json.loads(self.p.stdout.read(length))

    def request(self, method, params):
        self.id += 1
        self.send({"jsonrpc": "2.0", "id": self.id, "method": method, "params": params})
        while True:
            m = self.read()
            if m.get("id") == self.id and "method" not in m:
                return m

    def notify(self, method, params):
        self.send({"jsonrpc": "2.0", "method": method, "params": params})

    def close(self):
        self.killer.cancel()
        try:
            self.p.kill()
        except Exception:
            pass


def format_twice(binary, project, text):
    path = os.path.join(project, "src", "components", "Doc.tsx")
    uri = "file://" + path
    lsp = Lsp(binary, project)
    try:
        lsp.request("initialize", {"processId": None, "rootUri": "file://" + project, "capabilities": {}})
        lsp.notify("initialized", {})
        lsp.notify(
            "textDocument/didOpen",
            {"textDocument": {"uri": uri, "languageId": "typescriptreact", "version": 1, "text": text}},
        )
        fmt = {"textDocument": {"uri": uri}, "options": {"tabSize": 2, "insertSpaces": True}}
        r1 = lsp.request("textDocument/formatting", fmt)
        edits1 = r1.get("result") or []
        once = apply_edits(text, edits1)
        lsp.notify(
            "textDocument/didChange",
            {"textDocument": {"uri": uri, "version": 2}, "contentChanges": [{"text": once}]},
        )
        r2 = lsp.request("textDocument/formatting", fmt)
        edits2 = r2.get("result") or []
        twice = apply_edits(once, edits2)
        return edits1, once, edits2, twice
    finally:
        lsp.close()


def check_document(binary, project, name, text):
    failures = []
    literals = list(LITERAL_RE.finditer(text))
    edits1, once, edits2, twice = format_twice(binary, project, text)

    # (a)
    if len(edits1) != len(literals):
        failures.append(
            "(a) %d literal(s) in the document but %d edit(s) returned" % (len(literals), len(edits1))
        )
    else:
        # (b) expected result: splice the new texts over exactly the literal texts
        expected = text
        for m, e in sorted(zip(literals, edits1), key=lambda p: -p[0].start(1)):
            expected = expected[: m.start(1)] + e["newText"] + expected[m.end(1):]
        if once != expected:
            failures.append(
                "(b) the edits do not replace exactly the literal text.\n"
                "    expected document: %r\n    actual document:   %r" % (expected, once)
            )
        # (c)
        for m, e in zip(literals, edits1):
            if tokens(m.group(1)) != tokens(e["newText"]):
                failures.append(
                    "(c) token sequence changed by formatting:\n    before: %r\n    after:  %r"
                    % (tokens(m.group(1)), tokens(e["newText"]))
                )
    # (d)
    n_literals_once = len(LITERAL_RE.findall(once))
    if len(edits2) != n_literals_once:
        failures.append(
            "(d) the formatted document has %d literal(s) but only %d of them are still accepted "
            "by the parser (second formatting returned %d edit(s)).\n    formatted document:\n%s"
            % (n_literals_once, len(edits2), len(edits2), once)
        )
    # (e)
    if twice != once:
        failures.append("(e) formatting is not idempotent:\n    once:  %r\n    twice: %r" % (once, twice))

    if failures:
        print("FAIL %s" % name)
        for f in failures:
            print("  " + f)
    else:
        print("ok   %s" % name)
    return not failures


def main():
    binary, project = sys.argv[1], os.path.abspath(sys.argv[2])
    ok = True
    for doc in sys.argv[3:]:
        with open(doc, encoding="utf-8") as f:
            text = f.read()
        try:
            ok = check_document(binary, project, os.path.basename(doc), text) and ok
        except EOFError as e:
            print("FAIL %s\n  %s" % (os.path.basename(doc), e))
            ok = False
    print("RESULT: %s" % ("all checks passed" if ok else "PROPERTY VIOLATED"))
    sys.exit(0 if ok else 1)


if __name__ == "__main__":
    main()
