use common_lang_types::TextSource;
use intern::string_key::Intern;
use isograph_lang_parser::parse_iso_literal;

fn parse(text: &str) -> bool {
    let text_source = TextSource { relative_path_to_source_file: "dummy.ts".intern().into(), span: None };
    parse_iso_literal(text.to_string(), "dummy.ts".intern().into(), Some("Foo".to_string()), text_source).map_err(|e| eprintln!("{text:?} -> {}", e.0.message)).is_ok()
}

#[test]
fn huge_integer_literal_is_a_diagnostic_not_a_panic() {
    assert!(!parse("field Query.foo { a(x: 99999999999999999999) }"));
    assert!(parse("field Query.foo {\n a(x: 42)\n}"));
}

#[test]
fn astral_character_in_block_string_is_a_diagnostic_not_a_panic() {
    assert!(!parse("field Query.foo \"\"\"smile \u{1F600}\"\"\" { a }"));
    assert!(!parse("field Query.foo \"\"\"ctl \u{1}\"\"\" { a }"));
    assert!(parse("field Query.foo \"\"\"fine\"\"\" {\n a\n}"));
}
