// C29: a document containing a form feed (U+000C) between tokens. The June 2018 specification's
// SourceCharacter is [\u0009\u000A\u000D\u0020-\uFFFF] and only BOM, tab, space, line terminators,
// commas and comments are ignored, so the document is not valid GraphQL; graphql-js rejects it with
// "Cannot contain the invalid character \"\\f\"". The vendored parser accepts it.
use common::SourceLocationKey;
fn main() {
    for (name, doc) in [("executable", "{ a \u{c} b }"), ("control: U+000B", "{ a \u{b} b }")] {
        let r = graphql_syntax::parse_executable(doc, SourceLocationKey::generated());
        println!("{name}: {:?} -> {}", doc, if r.is_ok() { "ACCEPTED" } else { "rejected" });
    }
    let r = graphql_syntax::parse_schema_document("type \u{c} Query { a: Int }", SourceLocationKey::generated());
    println!("schema with form feed -> {}", if r.is_ok() { "ACCEPTED" } else { "rejected" });
}
