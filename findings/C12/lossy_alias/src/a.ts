import { iso } from '@iso';
export const A = iso(`
  field Query.A {
    first: s(q: "a b")
    second: s(q: "a_b")
    third: s(q: "a\\nb")
  }
`)(() => 1);
export const e = iso(`entrypoint Query.A`);
