use std::{fs, path::PathBuf};
use common_lang_types::CurrentWorkingDirectory;
use graphql_network_protocol::GraphQLAndJavascriptProfile;
use intern::string_key::Intern;
use isograph_compiler::{CompilerState, batch_compile::compile, update_sources, watch::{ChangedFileKind, SourceEventKind}};
use isograph_config::create_config;

fn lit(name: &str) -> String {
    format!("import {{ iso }} from '@iso';\nexport const {name} = iso(`\n  field Query.{name} {{\n    hello\n  }}\n`)(() => 1);\n")
}
fn setup(tag: &str) -> (PathBuf, CurrentWorkingDirectory) {
    let dir = PathBuf::from(format!("/var/tmp/c20demo_{tag}"));
    let _ = fs::remove_dir_all(&dir);
    fs::create_dir_all(dir.join("src/a")).unwrap();
    fs::create_dir_all(dir.join("src/ab")).unwrap();
    fs::write(dir.join("schema.graphql"), "type Query {\n  hello: String\n}\n").unwrap();
    fs::write(dir.join("isograph.config.json"), r#"{ "project_root": "./src", "schema": "./schema.graphql" }"#).unwrap();
    fs::write(dir.join("src/a/one.ts"), lit("One")).unwrap();
    fs::write(dir.join("src/ab/two.ts"), lit("Two")).unwrap();
    let cwd: CurrentWorkingDirectory = dir.to_str().unwrap().intern().into();
    (dir, cwd)
}
fn artifacts(dir: &PathBuf) -> Vec<String> {
    let mut v = vec![];
    if let Ok(rd) = fs::read_dir(dir.join("src/__isograph/Query")) { for e in rd { v.push(e.unwrap().file_name().to_string_lossy().to_string()); } }
    v.sort(); v
}

#[test]
fn watch_ignores_non_source_files_like_batch() {
    let (dir, cwd) = setup("filter");
    let config = create_config(&dir.join("isograph.config.json"), cwd);
    let mut state = CompilerState::<GraphQLAndJavascriptProfile>::new(config, cwd).ok().expect("state");
    compile(&mut state).expect("compile");
    // a markdown note inside the project root that happens to contain an iso literal
    fs::write(dir.join("src/notes.md"), lit("FromNotes")).unwrap();
    update_sources(&mut state.db, &[(SourceEventKind::CreateOrModify(dir.join("src/notes.md")), ChangedFileKind::JavaScriptSourceFile)]).ok().expect("update");
    compile(&mut state).expect("compile 2");
    let watch = artifacts(&dir);
    // fresh batch compile of the same files
    let config = create_config(&dir.join("isograph.config.json"), cwd);
    let mut fresh = CompilerState::<GraphQLAndJavascriptProfile>::new(config, cwd).ok().expect("state");
    compile(&mut fresh).expect("fresh");
    assert_eq!(watch, artifacts(&dir), "C20: watch mode compiled a file that a fresh batch compile ignores");
}

#[test]
fn removing_a_folder_does_not_remove_its_prefix_siblings() {
    let (dir, cwd) = setup("prefix");
    let config = create_config(&dir.join("isograph.config.json"), cwd);
    let mut state = CompilerState::<GraphQLAndJavascriptProfile>::new(config, cwd).ok().expect("state");
    compile(&mut state).expect("compile");
    fs::remove_dir_all(dir.join("src/a")).unwrap();
    update_sources(&mut state.db, &[(SourceEventKind::Remove(dir.join("src/a")), ChangedFileKind::JavaScriptSourceFolder)]).ok().expect("update");
    compile(&mut state).expect("compile 2");
    let watch = artifacts(&dir);
    assert_eq!(watch, vec!["Two".to_string()], "C20: removing src/a also removed src/ab/*");
}
