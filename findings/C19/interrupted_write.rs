use std::{fs, path::PathBuf};
use common_lang_types::CurrentWorkingDirectory;
use graphql_network_protocol::GraphQLAndJavascriptProfile;
use intern::string_key::Intern;
use isograph_compiler::{CompilerState, batch_compile::compile};
use isograph_config::create_config;

fn lit(body: &str) -> String {
    format!("import {{ iso }} from '@iso';\nexport const Foo = iso(`\n  field Query.Foo {{\n    {body}\n  }}\n`)(() => 1);\nexport const e = iso(`entrypoint Query.Foo`);\n")
}

#[test]
fn interrupted_write_is_repaired_by_next_compile() {
    let dir = PathBuf::from(std::env::var("C19_DIR").unwrap_or("/var/tmp/c19demo/proj".into()));
    let _ = fs::remove_dir_all(&dir);
    fs::create_dir_all(dir.join("src")).unwrap();
    fs::write(dir.join("schema.graphql"), "type Query {\n  hello: String\n  bye: String\n}\n").unwrap();
    fs::write(dir.join("isograph.config.json"), r#"{ "project_root": "./src", "schema": "./schema.graphql" }"#).unwrap();
    fs::write(dir.join("src/a.ts"), lit("hello")).unwrap();
    let cwd: CurrentWorkingDirectory = dir.to_str().unwrap().intern().into();
    let config = create_config(&dir.join("isograph.config.json"), cwd);
    let mut state = CompilerState::<GraphQLAndJavascriptProfile>::new(config, cwd).ok().expect("state");
    compile(&mut state).expect("first compile");
    let foo = dir.join("src/__isograph/Query/Foo");
    assert!(foo.join("entrypoint.ts").exists());

    // fault: the selectable directory is replaced by a regular file, so writes into it fail
    fs::remove_dir_all(&foo).unwrap();
    fs::write(&foo, "not a directory").unwrap();
    // a source change that requires Foo's artifacts to be rewritten
    state.db.insert_iso_literal("src/a.ts".intern().into(), lit("bye"));
    assert!(compile(&mut state).is_err(), "the write must fail");

    // the obstacle is removed; the next successful compile must repair the directory
    fs::remove_file(&foo).unwrap();
    compile(&mut state).expect("third compile");
    assert!(foo.join("entrypoint.ts").exists(), "C19: artifacts of Query.Foo were not rewritten");
    let q = fs::read_to_string(foo.join("query_text.ts")).unwrap();
    assert!(q.contains("bye"), "C19: stale or missing query text: {q}");
}
