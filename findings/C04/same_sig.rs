use pico::Storage;
use pico_macros::Db;

#[derive(Db, Default)]
pub struct TestDatabase { storage: Storage<Self> }

mod a {
    use super::TestDatabase;
    use pico_macros::memo;
    #[memo]
    pub fn same(db: &TestDatabase, x: u32) -> u32 { let _ = db; x + 1 }
}
mod b {
    use super::TestDatabase;
    use pico_macros::memo;
    #[memo]
    pub fn same(db: &TestDatabase, x: u32) -> u32 { let _ = db; x + 2 }
}

#[test]
fn distinct_functions_do_not_share_results() {
    let db = TestDatabase::default();
    assert_eq!(*a::same(&db, 1), 2);
    assert_eq!(*b::same(&db, 1), 3, "C04: b::same served a::same's cached result");
}
