// E2 `synfacts`: syn-based walker over the repository's Rust sources.  Emits, as one JSON document:
//  - every format-like macro invocation (format!/write!/writeln!/panic!/...): file, enclosing item path,
//    span of the template literal, its cooked value, and the argument expressions with their spans;
//  - every method call with string-literal arguments (push_str("..."), push('x'), Regex::new("...") ...);
//  - attribute literals (#[regex("...")], #[token("...")], #[resolve_field], #[memo], #[tracked] ...);
//  - const / static string items.
// It never executes anything from the repository.
use proc_macro2::Span;
use quote::ToTokens;
use serde_json::{json, Value};
use std::path::Path;
use syn::punctuated::Punctuated;
use syn::spanned::Spanned;
use syn::visit::{self, Visit};
use syn::{Expr, Lit, Token};

fn sp(s: Span) -> Value {
    let a = s.start();
    let b = s.end();
    json!([a.line, a.column, b.line, b.column])
}

struct V {
    file: String,
    path: Vec<String>,
    macros: Vec<Value>,
    calls: Vec<Value>,
    attrs: Vec<Value>,
    consts: Vec<Value>,
    items: Vec<Value>,
}

fn lit_str(e: &Expr) -> Option<(String, Span)> {
    match e {
        Expr::Lit(l) => match &l.lit {
            Lit::Str(s) => Some((s.value(), s.span())),
            Lit::Char(c) => Some((c.value().to_string(), c.span())),
            _ => None,
        },
        Expr::Reference(r) => lit_str(&r.expr),
        Expr::Paren(p) => lit_str(&p.expr),
        Expr::Group(g) => lit_str(&g.expr),
        _ => None,
    }
}

impl V {
    fn cur(&self) -> String {
        self.path.join("::")
    }
    fn handle_macro(&mut self, mac: &syn::Macro) {
        let name = mac.path.segments.last().map(|s| s.ident.to_string()).unwrap_or_default();
        let interesting = matches!(
            name.as_str(),
            "format" | "write" | "writeln" | "print" | "println" | "eprint" | "eprintln" | "panic" | "format_args"
                | "unreachable" | "todo" | "unimplemented" | "assert" | "debug_assert" | "info" | "error" | "warn" | "debug" | "trace"
        );
        if !interesting {
            // still descend into nested macros in the token stream where they parse as expressions
            if let Ok(args) = mac.parse_body_with(Punctuated::<Expr, Token![,]>::parse_terminated) {
                for a in args.iter() {
                    self.visit_expr(a);
                }
            }
            return;
        }
        let args = match mac.parse_body_with(Punctuated::<Expr, Token![,]>::parse_terminated) {
            Ok(a) => a,
            Err(_) => return,
        };
        let mut template: Option<(String, Span, usize)> = None;
        for (i, a) in args.iter().enumerate() {
            if let Some((v, s)) = lit_str(a) {
                if matches!(a, Expr::Lit(_)) {
                    template = Some((v, s, i));
                    break;
                }
            }
        }
        let mut argv = vec![];
        let mut dest = Value::Null;
        if let Some((_, _, ti)) = &template {
            for (i, a) in args.iter().enumerate() {
                if i < *ti {
                    dest = json!({"text": a.to_token_stream().to_string(), "span": sp(a.span())});
                    continue;
                }
                if i == *ti {
                    continue;
                }
                match a {
                    Expr::Assign(asg) => argv.push(json!({
                        "name": asg.left.to_token_stream().to_string(),
                        "text": asg.right.to_token_stream().to_string(),
                        "span": sp(asg.right.span())
                    })),
                    _ => argv.push(json!({"name": Value::Null, "text": a.to_token_stream().to_string(), "span": sp(a.span())})),
                }
            }
        }
        self.macros.push(json!({
            "file": self.file, "in": self.cur(), "macro": name, "span": sp(mac.span()),
            "template": template.as_ref().map(|t| t.0.clone()),
            "template_span": template.as_ref().map(|t| sp(t.1)),
            "dest": dest,
            "args": argv,
        }));
        for a in args.iter() {
            self.visit_expr(a);
        }
    }
}

impl<'ast> Visit<'ast> for V {
    fn visit_item_fn(&mut self, i: &'ast syn::ItemFn) {
        self.path.push(i.sig.ident.to_string());
        let attrs: Vec<String> = i.attrs.iter().map(|a| a.path().to_token_stream().to_string()).collect();
        self.items.push(json!({"file": self.file, "kind": "fn", "path": self.cur(), "attrs": attrs, "span": sp(i.span())}));
        visit::visit_item_fn(self, i);
        self.path.pop();
    }
    fn visit_impl_item_fn(&mut self, i: &'ast syn::ImplItemFn) {
        self.path.push(i.sig.ident.to_string());
        let attrs: Vec<String> = i.attrs.iter().map(|a| a.path().to_token_stream().to_string()).collect();
        self.items.push(json!({"file": self.file, "kind": "fn", "path": self.cur(), "attrs": attrs, "span": sp(i.span())}));
        visit::visit_impl_item_fn(self, i);
        self.path.pop();
    }
    fn visit_item_impl(&mut self, i: &'ast syn::ItemImpl) {
        let ty = i.self_ty.to_token_stream().to_string().replace(' ', "");
        let tr = i.trait_.as_ref().map(|t| t.1.to_token_stream().to_string().replace(' ', ""));
        self.path.push(match tr {
            Some(t) => format!("<{} as {}>", ty, t),
            None => ty,
        });
        visit::visit_item_impl(self, i);
        self.path.pop();
    }
    fn visit_item_mod(&mut self, i: &'ast syn::ItemMod) {
        self.path.push(i.ident.to_string());
        visit::visit_item_mod(self, i);
        self.path.pop();
    }
    fn visit_item_struct(&mut self, i: &'ast syn::ItemStruct) {
        let derives: Vec<String> = i.attrs.iter().map(|a| a.to_token_stream().to_string()).collect();
        let mut fields = vec![];
        for f in i.fields.iter() {
            let fa: Vec<String> = f.attrs.iter().map(|a| a.path().to_token_stream().to_string()).collect();
            fields.push(json!({"name": f.ident.as_ref().map(|x| x.to_string()), "ty": f.ty.to_token_stream().to_string(), "attrs": fa}));
        }
        self.items.push(json!({"file": self.file, "kind": "struct", "path": format!("{}::{}", self.cur(), i.ident), "attrs": derives, "fields": fields, "span": sp(i.span())}));
        visit::visit_item_struct(self, i);
    }
    fn visit_item_enum(&mut self, i: &'ast syn::ItemEnum) {
        let derives: Vec<String> = i.attrs.iter().map(|a| a.to_token_stream().to_string()).collect();
        let mut variants = vec![];
        for v in i.variants.iter() {
            let mut va = vec![];
            for a in v.attrs.iter() {
                let name = a.path().to_token_stream().to_string();
                let mut lits = vec![];
                if let syn::Meta::List(ml) = &a.meta {
                    if let Ok(args) = ml.parse_args_with(Punctuated::<Expr, Token![,]>::parse_terminated) {
                        for e in args.iter() {
                            if let Some((s, _)) = lit_str(e) {
                                lits.push(json!(s));
                            } else {
                                lits.push(json!({"expr": e.to_token_stream().to_string()}));
                            }
                        }
                    }
                }
                va.push(json!({"name": name, "args": lits}));
            }
            variants.push(json!({"name": v.ident.to_string(), "attrs": va}));
        }
        self.items.push(json!({"file": self.file, "kind": "enum", "path": format!("{}::{}", self.cur(), i.ident), "attrs": derives, "variants": variants, "span": sp(i.span())}));
        visit::visit_item_enum(self, i);
    }
    fn visit_item_const(&mut self, i: &'ast syn::ItemConst) {
        let v = lit_str(&i.expr).map(|x| x.0);
        self.consts.push(json!({"file": self.file, "in": self.cur(), "name": i.ident.to_string(), "ty": i.ty.to_token_stream().to_string(),
            "str": v, "expr": i.expr.to_token_stream().to_string().chars().take(4000).collect::<String>(), "span": sp(i.span())}));
        visit::visit_item_const(self, i);
    }
    fn visit_item_static(&mut self, i: &'ast syn::ItemStatic) {
        let v = lit_str(&i.expr).map(|x| x.0);
        self.consts.push(json!({"file": self.file, "in": self.cur(), "name": i.ident.to_string(), "ty": i.ty.to_token_stream().to_string(),
            "str": v, "expr": i.expr.to_token_stream().to_string().chars().take(4000).collect::<String>(), "span": sp(i.span())}));
        visit::visit_item_static(self, i);
    }
    fn visit_macro(&mut self, m: &'ast syn::Macro) {
        self.handle_macro(m);
    }
    fn visit_expr_method_call(&mut self, c: &'ast syn::ExprMethodCall) {
        let mut lits = vec![];
        for a in c.args.iter() {
            if let Some((v, s)) = lit_str(a) {
                lits.push(json!({"str": v, "span": sp(s)}));
            } else {
                lits.push(json!({"text": a.to_token_stream().to_string().chars().take(300).collect::<String>(), "span": sp(a.span())}));
            }
        }
        let m = c.method.to_string();
        if matches!(m.as_str(), "push_str" | "push" | "replace" | "replace_all" | "replacen" | "starts_with" | "ends_with" | "strip_prefix"
            | "strip_suffix" | "contains" | "join" | "split" | "trim_start_matches" | "trim_end_matches" | "expect" | "insert_str" | "repeat") {
            self.calls.push(json!({"file": self.file, "in": self.cur(), "method": m, "recv": c.receiver.to_token_stream().to_string().chars().take(200).collect::<String>(),
                "args": lits, "span": sp(c.span())}));
        }
        visit::visit_expr_method_call(self, c);
    }
    fn visit_expr_call(&mut self, c: &'ast syn::ExprCall) {
        let f = c.func.to_token_stream().to_string().replace(' ', "");
        if f.ends_with("Regex::new") || f.ends_with("RegexBuilder::new") {
            let lits: Vec<Value> = c.args.iter().filter_map(|a| lit_str(a).map(|x| json!(x.0))).collect();
            self.calls.push(json!({"file": self.file, "in": self.cur(), "method": f, "args": lits, "span": sp(c.span())}));
        }
        visit::visit_expr_call(self, c);
    }
}

fn walk(dir: &Path, out: &mut Vec<std::path::PathBuf>) {
    if let Ok(rd) = std::fs::read_dir(dir) {
        let mut es: Vec<_> = rd.filter_map(|e| e.ok()).collect();
        es.sort_by_key(|e| e.path());
        for e in es {
            let p = e.path();
            let n = p.file_name().unwrap().to_string_lossy().to_string();
            if p.is_dir() {
                if n == "target" || n == "node_modules" || n == ".git" || n == "fixtures" {
                    continue;
                }
                walk(&p, out);
            } else if n.ends_with(".rs") {
                out.push(p);
            }
        }
    }
}

fn main() {
    let args: Vec<String> = std::env::args().collect();
    let repo = Path::new(&args[1]);
    let out = &args[2];
    let mut files = vec![];
    walk(&repo.join("crates"), &mut files);
    walk(&repo.join("relay-crates"), &mut files);
    let mut v = V { file: String::new(), path: vec![], macros: vec![], calls: vec![], attrs: vec![], consts: vec![], items: vec![] };
    let mut parsed = 0usize;
    let mut failed: Vec<String> = vec![];
    for f in files.iter() {
        let src = match std::fs::read_to_string(f) {
            Ok(s) => s,
            Err(_) => continue,
        };
        let rel = f.strip_prefix(repo).unwrap().to_string_lossy().to_string();
        match syn::parse_file(&src) {
            Ok(ast) => {
                parsed += 1;
                v.file = rel;
                v.path.clear();
                v.visit_file(&ast);
            }
            Err(e) => failed.push(format!("{}: {}", rel, e)),
        }
    }
    let doc = json!({"files_parsed": parsed, "files_failed": failed, "macros": v.macros, "calls": v.calls, "consts": v.consts, "items": v.items});
    std::fs::write(out, serde_json::to_string(&doc).unwrap()).unwrap();
}
