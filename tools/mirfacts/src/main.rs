// E1 `mirfacts`: a rustc_private driver that dumps, for every body of the crate
// being compiled, a simplified JSON rendering of its MIR (statements,
// terminators, resolved callees, constants, spans, expansion origin) plus ADT,
// impl and alias tables. Used as RUSTC_WORKSPACE_WRAPPER under
// `cargo +nightly check`; writes one `<crate>.jsonl` per rustc process into
// $MIRFACTS_OUT. It never runs any isograph code.
#![feature(rustc_private)]
#![allow(clippy::all)]

extern crate rustc_abi;
extern crate rustc_driver;
extern crate rustc_hir;
extern crate rustc_interface;
extern crate rustc_middle;
extern crate rustc_session;
extern crate rustc_span;

use rustc_hir::def::DefKind;
use rustc_hir::def_id::{DefId, LocalDefId, LOCAL_CRATE};
use rustc_middle::mir::{
    self, AggregateKind, BasicBlockData, Body, Const, ConstValue, Operand, Place, PlaceElem, Rvalue,
    StatementKind, TerminatorKind,
};
use rustc_middle::ty::{self, print::with_no_trimmed_paths, Instance, Ty, TyCtxt, TypingEnv};
use rustc_span::Span;
use std::fmt::Write as _;

struct Cb;

fn esc(s: &str) -> String {
    let mut o = String::with_capacity(s.len() + 2);
    o.push('"');
    for c in s.chars() {
        match c {
            '"' => o.push_str("\\\""),
            '\\' => o.push_str("\\\\"),
            '\n' => o.push_str("\\n"),
            '\r' => o.push_str("\\r"),
            '\t' => o.push_str("\\t"),
            c if (c as u32) < 0x20 => {
                let _ = write!(o, "\\u{:04x}", c as u32);
            }
            c => o.push(c),
        }
    }
    o.push('"');
    o
}

struct Cx<'tcx> {
    tcx: TyCtxt<'tcx>,
    krate: String,
}

impl<'tcx> Cx<'tcx> {
    fn path(&self, did: DefId) -> String {
        let p = with_no_trimmed_paths!(self.tcx.def_path_str(did));
        if did.krate == LOCAL_CRATE {
            format!("{}::{}", self.krate, p)
        } else {
            p
        }
    }

    // canonical, re-export independent key of a definition: crate name + real def path
    fn key(&self, did: DefId) -> String {
        format!("{}{}", self.tcx.crate_name(did.krate), self.tcx.def_path(did).to_string_no_crate_verbose())
    }

    fn ty(&self, t: Ty<'tcx>) -> String {
        with_no_trimmed_paths!(format!("{}", t))
    }

    // (file, line, col, end line, end col, from_expansion, callsite line)
    fn span(&self, sp: Span) -> String {
        let sm = self.tcx.sess.source_map();
        let x = sp.from_expansion();
        let cs = sp.source_callsite();
        let lo = sm.lookup_char_pos(sp.lo());
        let hi = sm.lookup_char_pos(sp.hi());
        let cl = sm.lookup_char_pos(cs.lo());
        format!(
            "[{},{},{},{},{},{}]",
            lo.line,
            lo.col.0,
            hi.line,
            hi.col.0,
            if x { 1 } else { 0 },
            cl.line
        )
    }

    fn file_of(&self, sp: Span) -> String {
        let sm = self.tcx.sess.source_map();
        let f = sm.lookup_char_pos(sp.lo()).file;
        match &f.name {
            rustc_span::FileName::Real(r) => match r.local_path() {
                Some(p) => p.to_string_lossy().to_string(),
                None => format!("{:?}", f.name),
            },
            other => format!("{:?}", other),
        }
    }

    fn macro_of(&self, sp: Span) -> String {
        if !sp.from_expansion() {
            return "null".into();
        }
        // outermost user-visible macro
        let mut names = vec![];
        let mut s = sp;
        let mut guard = 0;
        while s.from_expansion() && guard < 32 {
            let d = s.ctxt().outer_expn_data();
            names.push(format!("{:?}", d.kind));
            s = d.call_site;
            guard += 1;
        }
        let js: Vec<String> = names.iter().map(|n| esc(n)).collect();
        format!("[{}]", js.join(","))
    }

    fn place(&self, body: &Body<'tcx>, p: &Place<'tcx>) -> String {
        let tcx = self.tcx;
        let mut pty = mir::PlaceTy::from_ty(body.local_decls[p.local].ty);
        let mut parts: Vec<String> = vec![];
        for elem in p.projection.iter() {
            let s = match elem {
                PlaceElem::Deref => "*".to_string(),
                PlaceElem::Field(f, _) => {
                    let mut name = None;
                    if let ty::Adt(adt, _) = pty.ty.kind() {
                        let vi = pty.variant_index.unwrap_or(rustc_abi::VariantIdx::from_u32(0));
                        if adt.variants().len() > vi.as_usize() {
                            let v = adt.variant(vi);
                            if v.fields.len() > f.as_usize() {
                                name = Some(v.fields[f].name.to_string());
                            }
                        }
                    }
                    format!(".{}", name.unwrap_or_else(|| f.as_usize().to_string()))
                }
                PlaceElem::Index(l) => format!("[_{}]", l.as_usize()),
                PlaceElem::ConstantIndex { offset, from_end, .. } => {
                    format!("[{}{}]", if from_end { "-" } else { "" }, offset)
                }
                PlaceElem::Subslice { from, to, from_end } => {
                    format!("[{}..{}{}]", from, if from_end { "-" } else { "" }, to)
                }
                PlaceElem::Downcast(sym, vi) => match sym {
                    Some(s) => format!("@{}", s),
                    None => format!("@{}", vi.as_usize()),
                },
                PlaceElem::OpaqueCast(_) => "as_opaque".to_string(),
                PlaceElem::UnwrapUnsafeBinder(_) => "unwrap_binder".to_string(),
            };
            parts.push(s);
            pty = pty.projection_ty(tcx, elem);
        }
        let js: Vec<String> = parts.iter().map(|n| esc(n)).collect();
        format!("[{},[{}]]", p.local.as_usize(), js.join(","))
    }

    fn place_ty(&self, body: &Body<'tcx>, p: &Place<'tcx>) -> Ty<'tcx> {
        p.ty(&body.local_decls, self.tcx).ty
    }

    fn constant(&self, body: &Body<'tcx>, c: &mir::ConstOperand<'tcx>, env: TypingEnv<'tcx>) -> String {
        let tcx = self.tcx;
        let _ = body;
        let ty = c.const_.ty();
        let mut out = format!("{{\"ty\":{}", esc(&self.ty(ty)));
        match ty.kind() {
            ty::FnDef(did, args) => {
                let _ = write!(out, ",\"fn\":{}", esc(&self.path(*did)));
                let ta: Vec<String> = args.iter().map(|a| esc(&with_no_trimmed_paths!(format!("{}", a)))).collect();
                let _ = write!(out, ",\"targs\":[{}]", ta.join(","));
            }
            _ => {
                let mut val: Option<ConstValue> = match c.const_ {
                    Const::Val(v, _) => Some(v),
                    Const::Ty(_, ct) => {
                        if let ty::ConstKind::Value(cv) = ct.kind() {
                            Some(tcx.valtree_to_const_val(cv))
                        } else {
                            None
                        }
                    }
                    Const::Unevaluated(uv, _) => {
                        let _ = write!(out, ",\"uneval\":{}", esc(&self.path(uv.def)));
                        if let Some(p) = uv.promoted {
                            let _ = write!(out, ",\"promoted\":{}", p.as_usize());
                        }
                        None
                    }
                };
                if val.is_none() {
                    if let Const::Unevaluated(uv, _) = c.const_ {
                        use rustc_middle::ty::TypeVisitableExt;
                        if uv.promoted.is_none() && !uv.args.has_non_region_param() {
                            if let Ok(v) = tcx.const_eval_resolve(env, uv, c.span) {
                                val = Some(v);
                            }
                        }
                    }
                }
                if let Some(v) = val {
                    match v {
                        ConstValue::Scalar(mir::interpret::Scalar::Int(si)) => {
                            let bits = si.to_bits(si.size());
                            match ty.kind() {
                                ty::Bool => {
                                    let _ = write!(out, ",\"v\":{}", if bits != 0 { "true" } else { "false" });
                                }
                                ty::Char => {
                                    let ch = char::from_u32(bits as u32).unwrap_or('\u{fffd}');
                                    let _ = write!(out, ",\"v\":{}", esc(&ch.to_string()));
                                }
                                ty::Int(_) => {
                                    let sz = si.size().bits();
                                    let sv = if sz == 128 {
                                        bits as i128
                                    } else {
                                        let shift = 128 - sz;
                                        ((bits << shift) as i128) >> shift
                                    };
                                    let _ = write!(out, ",\"v\":{}", esc(&sv.to_string()));
                                }
                                ty::Uint(_) => {
                                    let _ = write!(out, ",\"v\":{}", esc(&bits.to_string()));
                                }
                                ty::Adt(adt, _) if adt.is_enum() => {
                                    let mut found = None;
                                    for (vi, d) in adt.discriminants(tcx) {
                                        if d.val == bits {
                                            found = Some(adt.variant(vi).name.to_string());
                                        }
                                    }
                                    let _ = write!(
                                        out,
                                        ",\"v\":{},\"variant\":{}",
                                        esc(&bits.to_string()),
                                        found.map(|f| esc(&f)).unwrap_or("null".into())
                                    );
                                }
                                _ => {
                                    let _ = write!(out, ",\"v\":{}", esc(&bits.to_string()));
                                }
                            }
                        }
                        ConstValue::Slice { .. } => {
                            if let Some(bytes) = v.try_get_slice_bytes_for_diagnostics(tcx) {
                                let s = String::from_utf8_lossy(bytes);
                                let _ = write!(out, ",\"str\":{}", esc(&s));
                            }
                        }
                        ConstValue::ZeroSized => {
                            let _ = write!(out, ",\"zst\":true");
                        }
                        _ => {}
                    }
                }
            }
        }
        out.push('}');
        out
    }

    fn operand(&self, body: &Body<'tcx>, o: &Operand<'tcx>, env: TypingEnv<'tcx>) -> String {
        match o {
            Operand::Copy(p) => format!("{{\"copy\":{}}}", self.place(body, p)),
            Operand::Move(p) => format!("{{\"move\":{}}}", self.place(body, p)),
            Operand::Constant(c) => format!("{{\"const\":{}}}", self.constant(body, c, env)),
            #[allow(unreachable_patterns)]
            _ => "{\"other\":true}".to_string(),
        }
    }

    fn rvalue(&self, body: &Body<'tcx>, rv: &Rvalue<'tcx>, env: TypingEnv<'tcx>) -> String {
        let ops = |v: Vec<&Operand<'tcx>>| -> String {
            let js: Vec<String> = v.iter().map(|o| self.operand(body, o, env)).collect();
            format!("[{}]", js.join(","))
        };
        match rv {
            Rvalue::Use(o, ..) => format!("\"rv\":\"use\",\"ops\":{}", ops(vec![o])),
            Rvalue::Repeat(o, _) => format!("\"rv\":\"repeat\",\"ops\":{}", ops(vec![o])),
            Rvalue::Ref(_, bk, p) => format!(
                "\"rv\":\"ref\",\"mut\":{},\"place\":{}",
                matches!(bk, mir::BorrowKind::Mut { .. }),
                self.place(body, p)
            ),
            Rvalue::ThreadLocalRef(d) => format!("\"rv\":\"tls\",\"def\":{}", esc(&self.path(*d))),
            Rvalue::RawPtr(k, p) => format!(
                "\"rv\":\"rawptr\",\"mut\":{},\"place\":{}",
                matches!(k, mir::RawPtrKind::Mut),
                self.place(body, p)
            ),
            Rvalue::Cast(k, o, t) => format!(
                "\"rv\":\"cast\",\"cast\":{},\"to\":{},\"ops\":{}",
                esc(&format!("{:?}", k)),
                esc(&self.ty(*t)),
                ops(vec![o])
            ),
            Rvalue::BinaryOp(op, b) => format!(
                "\"rv\":\"binop\",\"binop\":{},\"ops\":{}",
                esc(&format!("{:?}", op)),
                ops(vec![&b.0, &b.1])
            ),
            Rvalue::UnaryOp(op, o) => format!(
                "\"rv\":\"unop\",\"unop\":{},\"ops\":{}",
                esc(&format!("{:?}", op)),
                ops(vec![o])
            ),
            Rvalue::Discriminant(p) => {
                let t = self.place_ty(body, p);
                let mut adt_s = "null".to_string();
                let mut vmap = vec![];
                if let ty::Adt(adt, _) = t.kind() {
                    adt_s = esc(&self.path(adt.did()));
                    if adt.is_enum() {
                        for (vi, d) in adt.discriminants(self.tcx) {
                            vmap.push(format!("[{},{}]", esc(&d.val.to_string()), esc(&adt.variant(vi).name.to_string())));
                        }
                    }
                }
                format!(
                    "\"rv\":\"discr\",\"place\":{},\"of\":{},\"adt\":{},\"vmap\":[{}]",
                    self.place(body, p),
                    esc(&self.ty(t)),
                    adt_s,
                    vmap.join(",")
                )
            }
            Rvalue::Aggregate(k, fields) => {
                let v: Vec<&Operand<'tcx>> = fields.iter().collect();
                let kind = match &**k {
                    AggregateKind::Array(_) => "\"agg\":\"array\"".to_string(),
                    AggregateKind::Tuple => "\"agg\":\"tuple\"".to_string(),
                    AggregateKind::Adt(did, vi, _, _, _) => {
                        let adt = self.tcx.adt_def(*did);
                        let v = adt.variant(*vi);
                        let fnames: Vec<String> = v.fields.iter().map(|f| esc(&f.name.to_string())).collect();
                        format!(
                            "\"agg\":\"adt\",\"adt\":{},\"variant\":{},\"fields\":[{}]",
                            esc(&self.path(*did)),
                            esc(&v.name.to_string()),
                            fnames.join(",")
                        )
                    }
                    AggregateKind::Closure(did, _) => format!("\"agg\":\"closure\",\"def\":{}", esc(&self.path(*did))),
                    AggregateKind::Coroutine(did, _) => {
                        format!("\"agg\":\"coroutine\",\"def\":{}", esc(&self.path(*did)))
                    }
                    AggregateKind::CoroutineClosure(did, _) => {
                        format!("\"agg\":\"coroutine_closure\",\"def\":{}", esc(&self.path(*did)))
                    }
                    AggregateKind::RawPtr(..) => "\"agg\":\"rawptr\"".to_string(),
                };
                format!("\"rv\":\"aggregate\",{},\"ops\":{}", kind, ops(v))
            }
            Rvalue::CopyForDeref(p) => format!("\"rv\":\"copy_for_deref\",\"place\":{}", self.place(body, p)),
            Rvalue::WrapUnsafeBinder(o, _) => format!("\"rv\":\"wrap_binder\",\"ops\":{}", ops(vec![o])),
            #[allow(unreachable_patterns)]
            _ => "\"rv\":\"other\"".to_string(),
        }
    }

    fn block(&self, body: &Body<'tcx>, did: DefId, bb: &BasicBlockData<'tcx>, env: TypingEnv<'tcx>) -> String {
        let tcx = self.tcx;
        let mut stmts = vec![];
        for st in &bb.statements {
            match &st.kind {
                StatementKind::Assign(b) => {
                    let (p, rv) = &**b;
                    stmts.push(format!(
                        "{{\"dst\":{},{},\"sp\":{}}}",
                        self.place(body, p),
                        self.rvalue(body, rv, env),
                        self.span(st.source_info.span)
                    ));
                }
                StatementKind::SetDiscriminant { place, variant_index } => {
                    stmts.push(format!(
                        "{{\"setdiscr\":{},\"variant\":{},\"sp\":{}}}",
                        self.place(body, place),
                        variant_index.as_usize(),
                        self.span(st.source_info.span)
                    ));
                }
                StatementKind::Intrinsic(i) => {
                    stmts.push(format!(
                        "{{\"intrinsic\":{},\"sp\":{}}}",
                        esc(&format!("{:?}", i).chars().take(40).collect::<String>()),
                        self.span(st.source_info.span)
                    ));
                }
                _ => {}
            }
        }
        let term = bb.terminator();
        let tsp = self.span(term.source_info.span);
        let t = match &term.kind {
            TerminatorKind::Goto { target } => format!("{{\"op\":\"goto\",\"t\":{}", target.as_usize()),
            TerminatorKind::SwitchInt { discr, targets } => {
                let mut arms = vec![];
                for (v, t) in targets.iter() {
                    arms.push(format!("[{},{}]", esc(&v.to_string()), t.as_usize()));
                }
                format!(
                    "{{\"op\":\"switch\",\"discr\":{},\"arms\":[{}],\"otherwise\":{}",
                    self.operand(body, discr, env),
                    arms.join(","),
                    targets.otherwise().as_usize()
                )
            }
            TerminatorKind::UnwindResume => "{\"op\":\"resume\"".to_string(),
            TerminatorKind::UnwindTerminate(_) => "{\"op\":\"terminate\"".to_string(),
            TerminatorKind::Return => "{\"op\":\"return\"".to_string(),
            TerminatorKind::Unreachable => "{\"op\":\"unreachable\"".to_string(),
            TerminatorKind::Drop { place, target, unwind, .. } => {
                let t = self.place_ty(body, place);
                format!(
                    "{{\"op\":\"drop\",\"place\":{},\"ty\":{},\"t\":{},\"u\":{}",
                    self.place(body, place),
                    esc(&self.ty(t)),
                    target.as_usize(),
                    unwind_s(unwind)
                )
            }
            TerminatorKind::Call { func, args, destination, target, unwind, fn_span, .. } => {
                let mut s = String::from("{\"op\":\"call\"");
                let fty = func.ty(&body.local_decls, tcx);
                match fty.kind() {
                    ty::FnDef(cdid, cargs) => {
                        let _ = write!(s, ",\"fn\":{},\"fnk\":{}", esc(&self.path(*cdid)), esc(&self.key(*cdid)));
                        let ta: Vec<String> =
                            cargs.iter().map(|a| esc(&with_no_trimmed_paths!(format!("{}", a)))).collect();
                        let _ = write!(s, ",\"targs\":[{}]", ta.join(","));
                        // trait / impl container of the declared callee
                        if let Some(tr) = tcx.trait_of_assoc(*cdid) {
                            let _ = write!(s, ",\"trait\":{}", esc(&self.path(tr)));
                        }
                        let res = std::panic::catch_unwind(std::panic::AssertUnwindSafe(|| {
                            Instance::try_resolve(tcx, env, *cdid, cargs)
                        }));
                        if let Ok(Ok(Some(inst))) = res {
                            let rdid = inst.def_id();
                            let _ = write!(s, ",\"res\":{},\"resk\":{}", esc(&self.path(rdid)), esc(&self.key(rdid)));
                            let kind = match inst.def {
                                ty::InstanceKind::Item(_) => "item",
                                ty::InstanceKind::Virtual(..) => "virtual",
                                ty::InstanceKind::Intrinsic(_) => "intrinsic",
                                ty::InstanceKind::ClosureOnceShim { .. } => "closure_once",
                                ty::InstanceKind::FnPtrShim(..) => "fnptr_shim",
                                ty::InstanceKind::DropGlue(..) => "drop_glue",
                                ty::InstanceKind::CloneShim(..) => "clone_shim",
                                ty::InstanceKind::ReifyShim(..) => "reify",
                                _ => "othershim",
                            };
                            let _ = write!(s, ",\"rk\":{}", esc(kind));
                        } else {
                            let _ = write!(s, ",\"res\":null");
                        }
                    }
                    _ => {
                        let _ = write!(
                            s,
                            ",\"fn\":null,\"fnop\":{},\"fnty\":{}",
                            self.operand(body, func, env),
                            esc(&self.ty(fty))
                        );
                    }
                }
                let av: Vec<String> = args.iter().map(|a| self.operand(body, &a.node, env)).collect();
                let atys: Vec<String> =
                    args.iter().map(|a| esc(&self.ty(a.node.ty(&body.local_decls, tcx)))).collect();
                let _ = write!(s, ",\"args\":[{}],\"atys\":[{}]", av.join(","), atys.join(","));
                let _ = write!(s, ",\"dst\":{}", self.place(body, destination));
                let _ = write!(s, ",\"t\":{}", target.map(|t| t.as_usize().to_string()).unwrap_or("null".into()));
                let _ = write!(s, ",\"u\":{}", unwind_s(unwind));
                let _ = write!(s, ",\"fsp\":{}", self.span(*fn_span));
                s
            }
            TerminatorKind::TailCall { .. } => "{\"op\":\"tailcall\"".to_string(),
            TerminatorKind::Assert { cond, expected, msg, target, unwind } => {
                let kind: String = format!("{:?}", msg).chars().take_while(|c| c.is_alphanumeric()).collect();
                format!(
                    "{{\"op\":\"assert\",\"cond\":{},\"expected\":{},\"msg\":{},\"t\":{},\"u\":{}",
                    self.operand(body, cond, env),
                    expected,
                    esc(&kind),
                    target.as_usize(),
                    unwind_s(unwind)
                )
            }
            TerminatorKind::Yield { resume, drop, .. } => format!(
                "{{\"op\":\"yield\",\"t\":{},\"drop\":{}",
                resume.as_usize(),
                drop.map(|d| d.as_usize().to_string()).unwrap_or("null".into())
            ),
            TerminatorKind::CoroutineDrop => "{\"op\":\"coroutine_drop\"".to_string(),
            TerminatorKind::FalseEdge { real_target, .. } => {
                format!("{{\"op\":\"goto\",\"t\":{}", real_target.as_usize())
            }
            TerminatorKind::FalseUnwind { real_target, .. } => {
                format!("{{\"op\":\"goto\",\"t\":{}", real_target.as_usize())
            }
            TerminatorKind::InlineAsm { .. } => "{\"op\":\"asm\"".to_string(),
        };
        let _ = did;
        format!(
            "{{\"cleanup\":{},\"stmts\":[{}],\"term\":{},\"sp\":{}}}}}",
            bb.is_cleanup,
            stmts.join(","),
            t,
            tsp
        )
    }

    fn body(&self, out: &mut String, ldid: LocalDefId) {
        let tcx = self.tcx;
        let did = ldid.to_def_id();
        let dk = tcx.def_kind(did);
        let ok = matches!(dk, DefKind::Fn | DefKind::AssocFn | DefKind::Closure | DefKind::SyntheticCoroutineBody);
        if !ok {
            return;
        }
        if !tcx.is_mir_available(did) {
            return;
        }
        let body: &Body<'tcx> = tcx.optimized_mir(did);
        let env = TypingEnv::post_analysis(tcx, did);
        let dspan = tcx.def_span(did);
        let sm = tcx.sess.source_map();
        let full = body.span;
        let lo = sm.lookup_char_pos(full.lo()).line;
        let hi = sm.lookup_char_pos(full.hi()).line;
        let vis = if matches!(dk, DefKind::Fn | DefKind::AssocFn) {
            if tcx.visibility(did).is_public() {
                "pub"
            } else {
                "restricted"
            }
        } else {
            "n/a"
        };
        let name = tcx.opt_item_name(did).map(|s| s.to_string()).unwrap_or_default();
        let mut impl_for = "null".to_string();
        let mut trait_s = "null".to_string();
        if matches!(dk, DefKind::AssocFn) {
            let parent = tcx.parent(did);
            match tcx.def_kind(parent) {
                DefKind::Impl { .. } => {
                    let st = tcx.type_of(parent).instantiate_identity().skip_norm_wip();
                    impl_for = esc(&self.ty(st));
                    if let Some(tr) = tcx.impl_opt_trait_ref(parent) {
                        let tr = tr.instantiate_identity().skip_norm_wip();
                        trait_s = esc(&self.path(tr.def_id));
                    }
                }
                DefKind::Trait => {
                    trait_s = esc(&self.path(parent));
                }
                _ => {}
            }
        }
        let is_async = tcx.asyncness(did).is_async();
        let _ = write!(
            out,
            "{{\"k\":\"fn\",\"id\":{},\"key\":{},\"name\":{},\"crate\":{},\"file\":{},\"lo\":{},\"hi\":{},\"defkind\":{},\"vis\":{},\"expn\":{},\"impl_for\":{},\"trait\":{},\"async\":{},\"argc\":{}",
            esc(&self.path(did)),
            esc(&self.key(did)),
            esc(&name),
            esc(&self.krate),
            esc(&self.file_of(dspan)),
            lo,
            hi,
            esc(&format!("{:?}", dk)),
            esc(vis),
            self.macro_of(dspan),
            impl_for,
            trait_s,
            is_async,
            body.arg_count
        );
        // parent body for closures
        if matches!(dk, DefKind::Closure | DefKind::SyntheticCoroutineBody) {
            let p = tcx.typeck_root_def_id(did);
            let _ = write!(out, ",\"root\":{}", esc(&self.path(p)));
        }
        // unsafe blocks (user provided) via HIR
        let mut unsafe_lines: Vec<usize> = vec![];
        {
            use rustc_hir::intravisit::{self, Visitor};
            struct V<'a> {
                lines: &'a mut Vec<usize>,
                sm: &'a rustc_span::source_map::SourceMap,
            }
            impl<'a, 'v> Visitor<'v> for V<'a> {
                fn visit_block(&mut self, b: &'v rustc_hir::Block<'v>) {
                    if let rustc_hir::BlockCheckMode::UnsafeBlock(rustc_hir::UnsafeSource::UserProvided) = b.rules {
                        if !b.span.from_expansion() {
                            self.lines.push(self.sm.lookup_char_pos(b.span.lo()).line);
                        }
                    }
                    intravisit::walk_block(self, b);
                }
            }
            if let Some(bid) = tcx.hir_maybe_body_owned_by(ldid) {
                let mut v = V { lines: &mut unsafe_lines, sm };
                v.visit_expr(bid.value);
            }
        }
        let ul: Vec<String> = unsafe_lines.iter().map(|l| l.to_string()).collect();
        let _ = write!(out, ",\"unsafe_blocks\":[{}]", ul.join(","));
        let is_unsafe_fn = if matches!(dk, DefKind::Fn | DefKind::AssocFn) {
            tcx.fn_sig(did).skip_binder().safety().is_unsafe()
        } else {
            false
        };
        let _ = write!(out, ",\"unsafe_fn\":{}", is_unsafe_fn);
        // return type
        let _ = write!(out, ",\"ret\":{}", esc(&self.ty(body.local_decls[mir::RETURN_PLACE].ty)));
        // locals
        let mut names: Vec<Option<String>> = vec![None; body.local_decls.len()];
        let mut dbg = vec![];
        for vdi in &body.var_debug_info {
            if let mir::VarDebugInfoContents::Place(p) = &vdi.value {
                if p.projection.is_empty() {
                    names[p.local.as_usize()] = Some(vdi.name.to_string());
                }
                dbg.push(format!("[{},{}]", esc(&vdi.name.to_string()), self.place(body, p)));
            }
        }
        let mut locals = vec![];
        for (i, d) in body.local_decls.iter_enumerated() {
            let n = names[i.as_usize()].as_ref().map(|s| esc(s)).unwrap_or("null".into());
            let mut adt = "null".to_string();
            let mut t = d.ty;
            loop {
                match t.kind() {
                    ty::Ref(_, inner, _) => t = *inner,
                    ty::RawPtr(inner, _) => t = *inner,
                    _ => break,
                }
            }
            if let ty::Adt(a, _) = t.kind() {
                adt = esc(&self.path(a.did()));
            }
            locals.push(format!("{{\"ty\":{},\"name\":{},\"adt\":{}}}", esc(&self.ty(d.ty)), n, adt));
        }
        let _ = write!(out, ",\"locals\":[{}],\"dbg\":[{}]", locals.join(","), dbg.join(","));
        let mut blocks = vec![];
        for (_bb, data) in body.basic_blocks.iter_enumerated() {
            blocks.push(self.block(body, did, data, env));
        }
        let _ = write!(out, ",\"blocks\":[{}]}}\n", blocks.join(","));
    }

    fn adts_impls(&self, out: &mut String) {
        let tcx = self.tcx;
        for id in tcx.hir_free_items() {
            let did = id.owner_id.to_def_id();
            match tcx.def_kind(did) {
                DefKind::Struct | DefKind::Enum | DefKind::Union => {
                    let adt = tcx.adt_def(did);
                    let mut vs = vec![];
                    for v in adt.variants() {
                        let fs: Vec<String> = v
                            .fields
                            .iter()
                            .map(|f| {
                                let t = tcx.type_of(f.did).instantiate_identity().skip_norm_wip();
                                format!(
                                    "{{\"name\":{},\"ty\":{},\"pub\":{}}}",
                                    esc(&f.name.to_string()),
                                    esc(&self.ty(t)),
                                    f.vis.is_public()
                                )
                            })
                            .collect();
                        vs.push(format!("{{\"name\":{},\"fields\":[{}]}}", esc(&v.name.to_string()), fs.join(",")));
                    }
                    let sp = tcx.def_span(did);
                    let _ = write!(
                        out,
                        "{{\"k\":\"adt\",\"id\":{},\"crate\":{},\"kind\":{},\"file\":{},\"line\":{},\"expn\":{},\"variants\":[{}]}}\n",
                        esc(&self.path(did)),
                        esc(&self.krate),
                        esc(&format!("{:?}", tcx.def_kind(did))),
                        esc(&self.file_of(sp)),
                        tcx.sess.source_map().lookup_char_pos(sp.lo()).line,
                        self.macro_of(sp),
                        vs.join(",")
                    );
                }
                DefKind::TyAlias => {
                    let t = tcx.type_of(did).instantiate_identity().skip_norm_wip();
                    let _ = write!(
                        out,
                        "{{\"k\":\"alias\",\"id\":{},\"crate\":{},\"ty\":{}}}\n",
                        esc(&self.path(did)),
                        esc(&self.krate),
                        esc(&self.ty(t))
                    );
                }
                DefKind::Impl { .. } => {
                    let st = tcx.type_of(did).instantiate_identity().skip_norm_wip();
                    let tr = tcx.impl_opt_trait_ref(did).map(|t| t.instantiate_identity().skip_norm_wip());
                    let items: Vec<String> = tcx
                        .associated_items(did)
                        .in_definition_order()
                        .map(|a| esc(&self.path(a.def_id)))
                        .collect();
                    let sp = tcx.def_span(did);
                    let mut self_adt = "null".to_string();
                    if let ty::Adt(a, _) = st.kind() {
                        self_adt = esc(&self.path(a.did()));
                    }
                    let _ = write!(
                        out,
                        "{{\"k\":\"impl\",\"crate\":{},\"trait\":{},\"for\":{},\"for_adt\":{},\"file\":{},\"line\":{},\"expn\":{},\"items\":[{}]}}\n",
                        esc(&self.krate),
                        tr.map(|t| esc(&self.path(t.def_id))).unwrap_or("null".into()),
                        esc(&self.ty(st)),
                        self_adt,
                        esc(&self.file_of(sp)),
                        tcx.sess.source_map().lookup_char_pos(sp.lo()).line,
                        self.macro_of(sp),
                        items.join(",")
                    );
                }
                DefKind::Const { .. } | DefKind::Static { .. } => {
                    let t = tcx.type_of(did).instantiate_identity().skip_norm_wip();
                    let sp = tcx.def_span(did);
                    let _ = write!(
                        out,
                        "{{\"k\":\"const\",\"id\":{},\"crate\":{},\"ty\":{},\"file\":{},\"line\":{}}}\n",
                        esc(&self.path(did)),
                        esc(&self.krate),
                        esc(&self.ty(t)),
                        esc(&self.file_of(sp)),
                        tcx.sess.source_map().lookup_char_pos(sp.lo()).line
                    );
                }
                _ => {}
            }
        }
    }
}

fn unwind_s(u: &mir::UnwindAction) -> String {
    match u {
        mir::UnwindAction::Cleanup(b) => b.as_usize().to_string(),
        _ => "null".to_string(),
    }
}

impl rustc_driver::Callbacks for Cb {
    fn after_analysis<'tcx>(
        &mut self,
        _compiler: &rustc_interface::interface::Compiler,
        tcx: TyCtxt<'tcx>,
    ) -> rustc_driver::Compilation {
        let outdir = match std::env::var("MIRFACTS_OUT") {
            Ok(d) => d,
            Err(_) => return rustc_driver::Compilation::Continue,
        };
        let krate = tcx.crate_name(LOCAL_CRATE).to_string();
        if krate.starts_with("build_script") {
            return rustc_driver::Compilation::Continue;
        }
        if let Ok(only) = std::env::var("MIRFACTS_ONLY") {
            if !only.split(',').any(|c| c == krate) {
                return rustc_driver::Compilation::Continue;
            }
        }
        let cx = Cx { tcx, krate: krate.clone() };
        let mut out = String::new();
        let is_test = tcx.sess.opts.test;
        let _ = write!(
            out,
            "{{\"k\":\"crate\",\"name\":{},\"test\":{},\"types\":{}}}\n",
            esc(&krate),
            is_test,
            esc(&format!("{:?}", tcx.crate_types()))
        );
        cx.adts_impls(&mut out);
        for ldid in tcx.hir_body_owners() {
            cx.body(&mut out, ldid);
        }
        let kind = if is_test {
            "test"
        } else if format!("{:?}", tcx.crate_types()).contains("Executable") {
            "bin"
        } else {
            "lib"
        };
        let path = format!("{}/{}.{}.jsonl", outdir, krate, kind);
        std::fs::write(&path, out).expect("mirfacts: cannot write facts");
        rustc_driver::Compilation::Continue
    }
}

fn main() {
    let mut args: Vec<String> = std::env::args().collect();
    // As RUSTC_WORKSPACE_WRAPPER we are invoked as: <driver> <rustc> <args...>
    if args.len() > 1 && (args[1].ends_with("rustc") || args[1].contains("/rustc")) {
        args.remove(1);
    }
    rustc_driver::run_compiler(&args, &mut Cb);
}
