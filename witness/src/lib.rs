//! E5 / E6: compile-fail witnesses and macro-expansion probe for pico.
//!
//! Nothing in this crate is ever *run*. The doc tests are `compile_fail,E0xxx`
//! witnesses, each paired with a `no_run` twin that differs only in the
//! offending line (a witness whose path is merely wrong would also fail to
//! compile). The `probe_a` / `probe_b` modules exist so that the MIR driver can
//! read what `#[memo]` expands to for two functions with textually identical
//! signatures.

use pico::{Database, MemoRef, SourceId, Storage};
use pico_macros::{Db, Singleton, Source, memo};

#[derive(Db, Default)]
pub struct TestDb {
    pub storage: Storage<Self>,
}

#[derive(Debug, Clone, PartialEq, Eq, Source)]
pub struct Input {
    #[key]
    pub key: u32,
    pub value: String,
}

#[derive(Debug, Clone, PartialEq, Eq, Singleton)]
pub struct Single(pub u32);

#[memo]
pub fn upper(db: &TestDb, id: SourceId<Input>) -> String {
    db.get(id).value.to_uppercase()
}

#[memo(raw)]
pub fn upper_raw(db: &TestDb, id: SourceId<Input>) -> String {
    db.get(id).value.to_uppercase()
}

pub fn interned(db: &TestDb, s: &String) -> MemoRef<String> {
    db.intern_ref(s)
}

/// W1 — a `&T` read from a source cannot be held across a write.
/// ```compile_fail,E0502
/// use witness::*; use pico::Database;
/// let mut db = TestDb::default();
/// let id = db.set(Input { key: 1, value: "a".into() });
/// let r: &String = &db.get(id).value;
/// db.set(Input { key: 1, value: "b".into() });
/// let _ = r.len();
/// ```
/// twin (compiles):
/// ```no_run
/// use witness::*; use pico::Database;
/// let mut db = TestDb::default();
/// let id = db.set(Input { key: 1, value: "a".into() });
/// let r: &String = &db.get(id).value;
/// let _ = r.len();
/// db.set(Input { key: 1, value: "b".into() });
/// ```
pub struct W1SourceRefAcrossSet;

/// W2 — a memoized `&T` cannot be held across a write.
/// ```compile_fail,E0502
/// use witness::*; use pico::Database;
/// let mut db = TestDb::default();
/// let id = db.set(Input { key: 1, value: "a".into() });
/// let r: &String = upper(&db, id);
/// db.set(Input { key: 1, value: "b".into() });
/// let _ = r.len();
/// ```
/// ```no_run
/// use witness::*; use pico::Database;
/// let mut db = TestDb::default();
/// let id = db.set(Input { key: 1, value: "a".into() });
/// let r: &String = upper(&db, id);
/// let _ = r.len();
/// db.set(Input { key: 1, value: "b".into() });
/// ```
pub struct W2MemoRefAcrossSet;

/// W3 — a memoized `&T` cannot be held across garbage collection.
/// ```compile_fail,E0502
/// use witness::*; use pico::Database;
/// let mut db = TestDb::default();
/// let id = db.set(Input { key: 1, value: "a".into() });
/// let r: &String = upper(&db, id);
/// db.run_garbage_collection();
/// let _ = r.len();
/// ```
/// ```no_run
/// use witness::*; use pico::Database;
/// let mut db = TestDb::default();
/// let id = db.set(Input { key: 1, value: "a".into() });
/// let r: &String = upper(&db, id);
/// let _ = r.len();
/// db.run_garbage_collection();
/// ```
pub struct W3MemoValueAcrossGc;

/// W4 — `MemoRef::lookup` (incl. the raw-pointer kind from `intern_ref`) cannot outlive a collection.
/// ```compile_fail,E0502
/// use witness::*; use pico::Database;
/// let mut db = TestDb::default();
/// let id = db.set(Input { key: 1, value: "a".into() });
/// let m = interned(&db, upper(&db, id));
/// let r: &String = m.lookup(&db);
/// db.run_garbage_collection();
/// let _ = r.len();
/// ```
/// ```no_run
/// use witness::*; use pico::Database;
/// let mut db = TestDb::default();
/// let id = db.set(Input { key: 1, value: "a".into() });
/// let m = interned(&db, upper(&db, id));
/// let r: &String = m.lookup(&db);
/// let _ = r.len();
/// db.run_garbage_collection();
/// ```
pub struct W4LookupAcrossGc;

/// W5 — `MemoRef::lookup_tracked` likewise.
/// ```compile_fail,E0502
/// use witness::*; use pico::Database;
/// let mut db = TestDb::default();
/// let id = db.set(Input { key: 1, value: "a".into() });
/// let m = upper_raw(&db, id);
/// let r: &String = m.lookup_tracked(&db);
/// db.run_garbage_collection();
/// let _ = r.len();
/// ```
/// ```no_run
/// use witness::*; use pico::Database;
/// let mut db = TestDb::default();
/// let id = db.set(Input { key: 1, value: "a".into() });
/// let m = upper_raw(&db, id);
/// let r: &String = m.lookup_tracked(&db);
/// let _ = r.len();
/// db.run_garbage_collection();
/// ```
pub struct W5LookupTrackedAcrossGc;

/// W6 — a looked-up reference cannot be `'static` (it is tied to the database borrow).
/// ```compile_fail,E0597
/// use witness::*; use pico::Database;
/// let mut db = TestDb::default();
/// let id = db.set(Input { key: 1, value: "a".into() });
/// let m = upper_raw(&db, id);
/// let r: &'static String = m.lookup(&db);
/// let _ = r.len();
/// ```
/// ```no_run
/// use witness::*; use pico::Database;
/// let mut db = TestDb::default();
/// let id = db.set(Input { key: 1, value: "a".into() });
/// let m = upper_raw(&db, id);
/// let r: &String = m.lookup(&db);
/// let _ = r.len();
/// ```
pub struct W6LookupNotStatic;

/// W7 — a source reference cannot be held across `remove`.
/// ```compile_fail,E0502
/// use witness::*; use pico::Database;
/// let mut db = TestDb::default();
/// let id = db.set(Input { key: 1, value: "a".into() });
/// let r: &Input = db.get(id);
/// db.remove(id);
/// let _ = r.key;
/// ```
/// ```no_run
/// use witness::*; use pico::Database;
/// let mut db = TestDb::default();
/// let id = db.set(Input { key: 1, value: "a".into() });
/// let r: &Input = db.get(id);
/// let _ = r.key;
/// db.remove(id);
/// ```
pub struct W7SourceRefAcrossRemove;

/// W8 — mutation needs exclusive access: `set` through a shared reference does not compile.
/// ```compile_fail,E0596
/// use witness::*; use pico::Database;
/// let db = TestDb::default();
/// let shared: &TestDb = &db;
/// shared.set(Input { key: 1, value: "a".into() });
/// ```
/// ```no_run
/// use witness::*; use pico::Database;
/// let mut db = TestDb::default();
/// let excl: &mut TestDb = &mut db;
/// excl.set(Input { key: 1, value: "a".into() });
/// ```
pub struct W8SetNeedsMut;

/// W9 — garbage collection needs exclusive access.
/// ```compile_fail,E0596
/// use witness::*; use pico::Database;
/// let db = TestDb::default();
/// let shared: &TestDb = &db;
/// shared.run_garbage_collection();
/// ```
/// ```no_run
/// use witness::*; use pico::Database;
/// let mut db = TestDb::default();
/// let excl: &mut TestDb = &mut db;
/// excl.run_garbage_collection();
/// ```
pub struct W9GcNeedsMut;

/// W10 — a singleton reference cannot be held across `remove_singleton`.
/// ```compile_fail,E0502
/// use witness::*; use pico::Database;
/// let mut db = TestDb::default();
/// db.set(Single(1));
/// let r: Option<&Single> = db.get_singleton::<Single>();
/// db.remove_singleton::<Single>();
/// let _ = r.is_some();
/// ```
/// ```no_run
/// use witness::*; use pico::Database;
/// let mut db = TestDb::default();
/// db.set(Single(1));
/// let r: Option<&Single> = db.get_singleton::<Single>();
/// let _ = r.is_some();
/// db.remove_singleton::<Single>();
/// ```
pub struct W10SingletonRefAcrossRemove;

/// E6 probe: two memoized functions with textually identical signatures in different modules.
pub mod probe_a {
    use super::TestDb;
    use pico_macros::memo;
    #[memo]
    pub fn same(db: &TestDb, x: u32) -> u32 {
        let _ = db;
        x + 1
    }
}

pub mod probe_b {
    use super::TestDb;
    use pico_macros::memo;
    #[memo]
    pub fn same(db: &TestDb, x: u32) -> u32 {
        let _ = db;
        x + 2
    }
}

/// E6 probe: a tracked field and its generated accessors.
pub mod probe_tracked {
    use pico::Storage;
    use pico_macros::Db;
    use std::collections::HashMap;

    #[derive(Db, Default)]
    pub struct TrackedDb {
        pub storage: Storage<Self>,
        #[tracked]
        map: HashMap<u32, u32>,
    }

    pub fn read_len(db: &TrackedDb) -> usize {
        db.get_map().tracked().len()
    }

    pub fn write(db: &mut TrackedDb) {
        db.get_map_mut().tracked().insert(1, 2);
    }
}
