"""Exact interval analysis of a small `char -> char` closure from its MIR (comparisons with constants and
switches on the scrutinee only).  Returns a list of (lo, hi, out) pieces: for inputs in [lo, hi] the closure
returns the input itself (out == 'id') or the constant code point `out`.  Returns None when the body does
anything else (calls, arithmetic): the caller then has to treat the map as unknown."""
from factbase import op_place, op_const

MAXCP = 0x10FFFF


def _cp(c):
    if c is None:
        return None
    v = c.get("v")
    if isinstance(v, str) and len(v) == 1 and c.get("ty") == "char":
        return ord(v)
    try:
        return int(v)
    except Exception:
        return None


def analyse(fn, arg_local=2):
    if any(b.term.op == "call" for b in fn.blocks if not b.cleanup):
        return None
    pieces = []
    # worklist of (block, intervals) where intervals is a list of (lo, hi)
    work = [(0, [(0, MAXCP)], {})]
    steps = 0
    while work:
        steps += 1
        if steps > 2000:
            return None
        b, iv, env = work.pop()
        blk = fn.blocks[b]
        env = dict(env)
        ret = None
        for s in blk.stmts:
            if s.dst is None or s.dst.proj:
                continue
            if s.rv == "binop" and s.j["binop"] in ("Le", "Lt", "Ge", "Gt", "Eq", "Ne"):
                a, c = s.ops
                pa, pc = op_place(a), op_place(c)
                ka, kc = _cp(op_const(a)), _cp(op_const(c))
                if pa is not None and pa.local == arg_local and kc is not None:
                    env[s.dst.local] = (s.j["binop"], "x", kc)
                elif pc is not None and pc.local == arg_local and ka is not None:
                    # k OP x  ==  x OP' k
                    flip = {"Le": "Ge", "Lt": "Gt", "Ge": "Le", "Gt": "Lt", "Eq": "Eq", "Ne": "Ne"}[s.j["binop"]]
                    env[s.dst.local] = (flip, "x", ka)
                else:
                    return None
            elif s.rv == "use":
                p = op_place(s.ops[0])
                c = op_const(s.ops[0])
                if s.dst.local == 0:
                    if p is not None and p.local == arg_local and not p.proj:
                        ret = "id"
                    elif c is not None and _cp(c) is not None:
                        ret = _cp(c)
                    else:
                        return None
                elif p is not None and p.local in env:
                    env[s.dst.local] = env[p.local]
                elif p is not None and p.local == arg_local:
                    env[s.dst.local] = ("alias",)
                else:
                    return None
            else:
                return None
        t = blk.term
        if t.op == "return":
            pass
        if ret is not None:
            env["__ret"] = ret
        if t.op == "return":
            r = env.get("__ret")
            if r is None:
                return None
            for lo, hi in iv:
                pieces.append((lo, hi, r))
            continue
        if t.op == "goto":
            work.append((t.j["t"], iv, env))
            continue
        if t.op == "switch":
            p = op_place(t.j["discr"])
            if p is None:
                return None
            if p.local == arg_local or env.get(p.local) == ("alias",):
                vals = [(int(v), tgt) for v, tgt in t.j["arms"]]
                rest = list(iv)
                for v, tgt in vals:
                    hit = [(max(lo, v), min(hi, v)) for lo, hi in iv if lo <= v <= hi]
                    if hit:
                        work.append((tgt, [(v, v)], env))
                    new = []
                    for lo, hi in rest:
                        if lo <= v <= hi:
                            if lo <= v - 1:
                                new.append((lo, v - 1))
                            if v + 1 <= hi:
                                new.append((v + 1, hi))
                        else:
                            new.append((lo, hi))
                    rest = new
                if rest:
                    work.append((t.j["otherwise"], rest, env))
                continue
            cond = env.get(p.local)
            if cond is None or len(cond) != 3:
                return None
            op, _, k = cond

            def split(iv, op, k):
                yes, no = [], []
                for lo, hi in iv:
                    if op == "Le":
                        a, b_ = (lo, min(hi, k)), (max(lo, k + 1), hi)
                    elif op == "Lt":
                        a, b_ = (lo, min(hi, k - 1)), (max(lo, k), hi)
                    elif op == "Ge":
                        a, b_ = (max(lo, k), hi), (lo, min(hi, k - 1))
                    elif op == "Gt":
                        a, b_ = (max(lo, k + 1), hi), (lo, min(hi, k))
                    elif op == "Eq":
                        a = (k, k) if lo <= k <= hi else (1, 0)
                        if a[0] <= a[1]:
                            yes.append(a)
                        if lo <= k - 1 and lo <= min(hi, k - 1):
                            no.append((lo, min(hi, k - 1)))
                        if max(lo, k + 1) <= hi:
                            no.append((max(lo, k + 1), hi))
                        continue
                    else:
                        return None, None
                    if a[0] <= a[1]:
                        yes.append(a)
                    if b_[0] <= b_[1]:
                        no.append(b_)
                return yes, no
            yes, no = split(iv, op, k)
            if yes is None:
                return None
            arms = t.j["arms"]
            if len(arms) != 1 or arms[0][0] != "0":
                return None
            if no:
                work.append((arms[0][1], no, env))
            if yes:
                work.append((t.j["otherwise"], yes, env))
            continue
        return None
    return pieces


def identity_set(pieces):
    return sorted((lo, hi) for lo, hi, o in pieces if o == "id")


def constants(pieces):
    return sorted({o for lo, hi, o in pieces if o != "id"})
