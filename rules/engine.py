"""E4 rule engine: obligations, known findings, evidence, exit codes.

A property module (rules/props/cNN.py) exposes

    TITLE, TECHNIQUE, EXPLANATION, ASSUMPTIONS
    def run(cx): ...      # calls cx.ob(...) for every rule instance it evaluates

Exit codes: 0 held (or only listed known findings), 1 VIOLATION, 2 CHECK-ERROR
(anchor missing / floor not met / facts missing: the check refuses to say "held"
about something it did not analyse).
"""
import importlib, json, os, sys, time, traceback

HERE = os.path.dirname(os.path.abspath(__file__))
VERIF = os.path.dirname(HERE)
sys.path.insert(0, HERE)

import facts as factsmod
from factbase import FactBase, AnchorError

MIR_CRATES_DEFAULT = None  # all


class Obligation:
    __slots__ = ("rule", "key", "ok", "what", "where", "detail", "nontrivial")

    def __init__(self, rule, key, ok, what, where, detail, nontrivial):
        self.rule, self.key, self.ok, self.what, self.where, self.detail, self.nontrivial = (
            rule, key, ok, what, where, detail, nontrivial)

    def full_key(self):
        return "%s|%s" % (self.rule, self.key)

    def to_json(self):
        d = {"rule": self.rule, "instance": self.key, "verdict": "holds" if self.ok else "FAILS",
             "where": self.where, "what": self.what}
        if self.detail:
            d["detail"] = self.detail
        return d


class Cx:
    def __init__(self, pid, tier, facts_dir, tree_hash, fb_loader):
        self.pid = pid
        self.tier = tier
        self.facts_dir = facts_dir
        self.tree_hash = tree_hash
        self._fb_loader = fb_loader
        self._fb = {}
        self.obs = []
        self.floors = {}
        self.notes = []
        self.evaluations = 0
        self.extra = {}

    # -- fact access ------------------------------------------------------
    def mir(self, *crates):
        """FactBase over the given crates (all workspace crates if none given)."""
        key = tuple(sorted(crates))
        if key not in self._fb:
            self._fb[key] = self._fb_loader(crates)
        return self._fb[key]

    def syn(self):
        p = os.path.join(self.facts_dir, "syn", "syn.json")
        if not os.path.exists(p):
            raise factsmod.CheckError("syn facts missing: " + p)
        if "syn" not in self._fb:
            with open(p) as fh:
                self._fb["syn"] = json.load(fh)
        return self._fb["syn"]

    def witness(self):
        """Results of the compile-fail witnesses + path of the probe crate's MIR facts."""
        if "witness" not in self._fb:
            self._fb["witness"] = factsmod.ensure_witness(self.facts_dir)
        return self._fb["witness"]

    def probe(self):
        self.witness()
        p = os.path.join(self.facts_dir, "witness", "witness.lib.jsonl")
        if not os.path.exists(p):
            raise factsmod.CheckError("probe crate MIR facts missing: " + p)
        if "probe" not in self._fb:
            self._fb["probe"] = FactBase([p])
        return self._fb["probe"]

    def witness_obligations(self, rule, names):
        """One obligation per witness: the violating program must fail to compile with the stated error
        code AND its twin (same program minus the offending line) must compile."""
        w = self.witness()["tests"]
        for n, what in names:
            r = w.get(n)
            if r is None or "witness" not in r or "twin" not in r:
                raise factsmod.CheckError("witness %s did not run (witness crate broken?)" % n)
            if r["twin"] != "ok":
                raise factsmod.CheckError("twin of witness %s no longer compiles: the witness is meaningless; "
                                          "fix /verif/witness" % n)
            self.ob(rule, n, r["witness"] == "ok", what + " (compile-fail witness: the violating program now "
                    "type-checks)" if r["witness"] != "ok" else what, "witness/src/lib.rs")

    def ts(self):
        p = os.path.join(self.facts_dir, "ts", "ts.json")
        if not os.path.exists(p):
            raise factsmod.CheckError("ts facts missing: " + p)
        if "ts" not in self._fb:
            with open(p) as fh:
                self._fb["ts"] = json.load(fh)
        return self._fb["ts"]

    # -- recording ----------------------------------------------------------
    def ob(self, rule, key, ok, what, where="", detail=None, nontrivial=True):
        """Record one evaluated rule instance."""
        self.obs.append(Obligation(rule, key, bool(ok), what, where, detail, nontrivial))
        return bool(ok)

    def count(self, n=1):
        """Count examined sites / paths / functions that are not obligations themselves."""
        self.evaluations += n

    def floor(self, name, found, confirmed):
        """Fail closed when far fewer instances are found than were confirmed by hand on the pinned tree.
        `confirmed` is the hand-confirmed count. Small counts (<= 3) are structural (distinct roles) and required
        in full; for larger counts a legitimate refactoring can merge duplicates or remove a feature, so the check
        refuses to pass only when more than half of the confirmed instances have disappeared - a matcher that has
        gone blind is still caught, a de-duplication is not reported as an error."""
        minimum = confirmed if confirmed <= 3 else (confirmed + 1) // 2
        self.floors[name] = {"found": found, "confirmed_on_pinned_tree": confirmed, "floor": minimum}
        if found < minimum:
            raise factsmod.CheckError("floor not met for %s: found %d < %d (a rule matching too few sites "
                                      "would pass vacuously)" % (name, found, minimum))

    def note(self, s):
        self.notes.append(s)


def load_known():
    p = os.path.join(VERIF, "known_findings.json")
    if not os.path.exists(p):
        return []
    with open(p) as fh:
        return json.load(fh)["findings"]


def write_evidence(pid, tier, seed, mod, cx, wall, violations, known_matched, error=None):
    obs = cx.obs if cx else []
    distinct = len({o.full_key() for o in obs if o.nontrivial})
    samples = [o.to_json() for o in obs if not o.ok][:12]
    samples += [o.to_json() for o in obs if o.ok][: max(4, 24 - len(samples))]
    cov = {
        "explanation": getattr(mod, "EXPLANATION", "") if mod else "",
        "obligations": len(obs),
        "discharged": sum(1 for o in obs if o.ok),
        "evaluations": max(1, (cx.evaluations if cx else 0) + len(obs)),
        "distinct_nontrivial": distinct,
        "rule": "one obligation per rule instance discovered in the fact base (function, call site, path or table "
                "row); an instance is non-trivial when the rule had to inspect at least one path/site/row for it; "
                "distinct by rule id + instance key",
        "samples": samples or [{"note": "no obligations evaluated"}],
        "exhaustive": True,
        "checker_cmd": "./check %s --tier %s" % (pid, tier),
        "trusted_base": ["rustc nightly MIR construction (optimized_mir at -Zmir-opt-level=0) and Instance::try_resolve",
                         "the mirfacts driver's rendering of MIR", "syn 2 parser (template/attribute facts)",
                         "rules/tsfacts.py tokenizer (TypeScript tables of cache.ts)", "the rule code under /verif/rules"],
        "tree_hash": cx.tree_hash if cx else None,
        "floors": cx.floors if cx else {},
        "known_findings_matched": known_matched,
        "failed_instances": [o.full_key() for o in obs if not o.ok],
        "notes": (cx.notes if cx else []) + list(FactBase.renamed),
    }
    if cx:
        cov.update(cx.extra)
    if error:
        cov["check_error"] = error
    ev = {
        "property_id": pid,
        "tier": tier,
        "seed": seed,
        "level": "other",
        "coverage": cov,
        "assumptions": list(getattr(mod, "ASSUMPTIONS", [])) if mod else [],
        "wall_s": round(wall, 2),
        "violations": violations,
    }
    evdir = os.environ.get("VERIF_EVIDENCE_DIR") or os.path.join(VERIF, "evidence")
    os.makedirs(evdir, exist_ok=True)
    path = os.path.join(evdir, pid + ".json")
    with open(path + ".tmp", "w") as fh:
        json.dump(ev, fh, indent=1)
    os.replace(path + ".tmp", path)
    return path


def fb_loader_for(facts_dir):
    mir = os.path.join(facts_dir, "mir")

    def load(crates):
        if not crates:
            return FactBase([mir])
        files = []
        for c in crates:
            found = [os.path.join(mir, f) for f in os.listdir(mir) if f.split(".")[0] == c]
            if not found:
                raise factsmod.CheckError("no MIR facts for crate " + c)
            files += found
        return FactBase(files)

    return load


def run_property(pid, tier, explain=None, facts_dir=None, quiet=False):
    """Returns exit code."""
    t0 = time.time()
    seed = int(os.environ.get("VERIF_SEED", "0") or 0)
    mod = None
    cx = None
    try:
        mod = importlib.import_module("props." + pid.lower())
        if facts_dir is None:
            facts_dir, th = factsmod.ensure_facts()
        else:
            th = os.path.basename(facts_dir.rstrip("/"))
        cx = Cx(pid, tier, facts_dir, th, fb_loader_for(facts_dir))
        mod.run(cx)
        if not cx.obs:
            raise factsmod.CheckError("no rule instance was evaluated")
    except (factsmod.CheckError, AnchorError) as e:
        msg = "CHECK-ERROR property=%s %s" % (pid, e)
        print(msg)
        write_evidence(pid, tier, seed, mod, cx, time.time() - t0, 0, [], error=str(e))
        return 2
    except Exception as e:  # a crash of the checker is never a "held"
        traceback.print_exc()
        print("CHECK-ERROR property=%s internal error: %r" % (pid, e))
        write_evidence(pid, tier, seed, mod, cx, time.time() - t0, 0, [], error=repr(e))
        return 2

    known = [k for k in load_known() if k["property"] == pid]
    known_keys = {k["key"]: k for k in known if k.get("status", "known") == "known"}
    failed = [o for o in cx.obs if not o.ok]
    matched, unlisted = [], []
    for o in failed:
        if o.full_key() in known_keys:
            matched.append(o)
        else:
            unlisted.append(o)
    if not quiet:
        print("[%s] tier=%s tree=%s obligations=%d discharged=%d failed=%d (known=%d)" % (
            pid, tier, cx.tree_hash, len(cx.obs), len(cx.obs) - len(failed), len(failed), len(matched)))
    seen = set()
    for o in matched:
        if o.full_key() in seen:
            continue
        seen.add(o.full_key())
        print("KNOWN-FINDING: property=%s %s — %s [%s]" % (pid, o.full_key(), known_keys[o.full_key()]["what"],
                                                           o.where))
    # a listed finding that no longer fails is reported (not an error): the list is stale
    for k in known_keys:
        if k not in {o.full_key() for o in failed}:
            print("NOTE: listed known finding no longer reproduces: %s" % k)
    rc = 0
    if unlisted:
        rdir = os.environ.get("VERIF_EVIDENCE_DIR") or os.path.join(VERIF, "reports")
        os.makedirs(rdir, exist_ok=True)
        rp = os.path.join(rdir, "%s.violation.json" % pid)
        with open(rp, "w") as fh:
            json.dump({"property": pid, "tree_hash": cx.tree_hash,
                       "violations": [dict(o.to_json(), key=o.full_key()) for o in unlisted]}, fh, indent=1)
        for o in unlisted:
            print("  FAILS %s @ %s: %s" % (o.full_key(), o.where, o.what))
            if o.detail and not quiet:
                print("        " + str(o.detail)[:600])
        print("VIOLATION property=%s replay=%s" % (pid, rp))
        rc = 1
    write_evidence(pid, tier, seed, mod, cx, time.time() - t0, len(unlisted), [o.full_key() for o in matched])
    return rc


def main(argv):
    import argparse
    ap = argparse.ArgumentParser()
    ap.add_argument("pid")
    ap.add_argument("--tier", default=os.environ.get("VERIF_TIER", "quick"))
    ap.add_argument("--explain", default=None)
    ap.add_argument("--facts", default=None, help="use an existing fact directory (self-tests)")
    a = ap.parse_args(argv)
    tier = a.tier if a.tier in ("quick", "thorough") else "quick"
    if a.explain:
        with open(a.explain) as fh:
            print(json.dumps(json.load(fh), indent=1))
    rc = run_property(a.pid.upper(), tier, facts_dir=a.facts)
    if rc == 0 and tier == "thorough":
        import selftest
        rc = selftest.run(a.pid.upper())
    return rc


if __name__ == "__main__":
    sys.exit(main(sys.argv[1:]))
