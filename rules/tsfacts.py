"""E3 (light): tokenizer-level facts about the TypeScript runtime's response-key functions in
libs/isograph-react/src/core/cache.ts.  (A swc-based extractor was planned; the facts needed here - string
literals, regex literals with flags and identifiers per `case` of one switch - are available from a small
tokenizer, which keeps the check free of a 60 s swc build.)  Nothing is executed."""
import re

TOKEN = re.compile(r"""
    (?P<ws>\s+|//[^\n]*|/\*.*?\*/)
  | (?P<str>'(?:[^'\\\n]|\\.)*'|"(?:[^"\\\n]|\\.)*")
  | (?P<tpl>`(?:[^`\\]|\\.)*`)
  | (?P<regex>(?<=[(,=:\s])/(?![/*])(?:[^/\\\n]|\\.)+/[a-z]*)
  | (?P<id>[A-Za-z_$][A-Za-z0-9_$]*)
  | (?P<num>\d+)
  | (?P<punct>=>|===|!==|==|!=|\+=|[{}()\[\];,.:+\-*/<>=!?|&])
""", re.X | re.S)


def tokenize(src):
    out = []
    i = 0
    while i < len(src):
        m = TOKEN.match(src, i)
        if not m:
            i += 1
            continue
        k = m.lastgroup
        if k != "ws":
            out.append((k, m.group(k), src.count("\n", 0, m.start()) + 1))
        i = m.end()
    return out


def function_body(tokens, name):
    """tokens of the body `{ ... }` of the (last, implementation) declaration `function name(`"""
    starts = [i for i, t in enumerate(tokens) if t[1] == "function" and i + 1 < len(tokens) and tokens[i + 1][1] == name]
    for s in reversed(starts):
        # skip the parameter list and return type up to the opening brace of the body
        depth = 0
        j = s + 2
        while j < len(tokens):
            if tokens[j][1] == "(":
                depth += 1
            elif tokens[j][1] == ")":
                depth -= 1
                if depth == 0:
                    break
            j += 1
        while j < len(tokens) and tokens[j][1] not in ("{", ";"):
            j += 1
        if j >= len(tokens) or tokens[j][1] == ";":
            continue  # overload signature
        depth = 0
        k = j
        while k < len(tokens):
            if tokens[k][1] == "{":
                depth += 1
            elif tokens[k][1] == "}":
                depth -= 1
                if depth == 0:
                    return tokens[j:k + 1]
            k += 1
    return None


def switch_cases(body):
    """{case label: tokens until the next case at the same depth}"""
    out = {}
    cur = None
    depth = 0
    base = None
    for t in body:
        if t[1] == "{":
            depth += 1
        if t[1] == "}":
            depth -= 1
        if t[1] == "case" and (base is None or depth == base):
            base = depth
            cur = "__pending"
            continue
        if cur == "__pending" and t[0] == "str":
            cur = t[1][1:-1]
            out[cur] = []
            continue
        if cur and cur != "__pending":
            out[cur].append(t)
    return out


def exported_consts(tokens):
    out = {}
    for i, t in enumerate(tokens):
        if t[1] == "const" and i + 3 < len(tokens) and tokens[i + 2][1] == "=" and tokens[i + 3][0] == "str":
            out[tokens[i + 1][1]] = tokens[i + 3][1][1:-1]
    return out
