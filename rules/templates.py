"""Format-template facts: placeholders with their source positions and the lexical context (of the generated
JavaScript/TypeScript/GraphQL text) in which each placeholder sits.  Joined with MIR on (file, line, column) of
the `fmt::rt::Argument::new_display` calls to learn the *type* formatted into each placeholder."""
import os, re

CODE, SQ, DQ, BT, BLOCK, LINE = "code", "single-quoted", "double-quoted", "template-literal", "block-comment", "line-comment"


def scan_literal(lines, line, col):
    """Scan a Rust string literal starting at (1-based line, 0-based col) in `lines`.
    Returns (cooked_text, placeholders) where placeholders = [(src_line, src_col, name, cooked_index)]."""
    text = lines[line - 1]
    i = col
    raw = False
    hashes = 0
    if text[i] == "r":
        raw = True
        i += 1
        while text[i] == "#":
            hashes += 1
            i += 1
    if text[i] != '"':
        return None, []
    i += 1
    cooked = []
    phs = []
    ln = line

    def cur():
        return lines[ln - 1] if ln - 1 < len(lines) else ""
    while True:
        t = cur()
        if i >= len(t):
            # newline inside the literal
            cooked.append("\n")
            ln += 1
            i = 0
            if ln - 1 >= len(lines):
                break
            continue
        ch = t[i]
        if not raw and ch == "\\":
            nx = t[i + 1] if i + 1 < len(t) else "\n"
            if nx == "\n" or i + 1 >= len(t):
                # line continuation: skip newline and leading whitespace
                ln += 1
                i = 0
                while ln - 1 < len(lines) and i < len(cur()) and cur()[i] in " \t":
                    i += 1
                while ln - 1 < len(lines) and i >= len(cur()) and cur().strip() == "":
                    ln += 1
                    i = 0
                    while i < len(cur()) and cur()[i] in " \t":
                        i += 1
                continue
            mp = {"n": "\n", "t": "\t", "r": "\r", "0": "\0", "\\": "\\", '"': '"', "'": "'"}
            if nx in mp:
                cooked.append(mp[nx])
                i += 2
                continue
            if nx == "x":
                cooked.append(chr(int(t[i + 2:i + 4], 16)))
                i += 4
                continue
            if nx == "u":
                j = t.index("}", i)
                cooked.append(chr(int(t[i + 3:j], 16)))
                i = j + 1
                continue
            cooked.append(nx)
            i += 2
            continue
        if ch == '"':
            if not raw:
                break
            if t[i + 1:i + 1 + hashes] == "#" * hashes:
                break
        if ch == "{":
            if i + 1 < len(t) and t[i + 1] == "{":
                cooked.append("{")
                i += 2
                continue
            j = t.index("}", i)
            name = t[i + 1:j].split(":")[0].strip()
            phs.append((ln, i, name, len(cooked)))
            cooked.append("\x00")     # marker
            i = j + 1
            continue
        if ch == "}" and i + 1 < len(t) and t[i + 1] == "}":
            cooked.append("}")
            i += 2
            continue
        cooked.append(ch)
        i += 1
    return "".join(cooked), phs


def contexts(cooked, start=CODE, lang="js"):
    """Lexical context at every placeholder marker (\\x00) of `cooked`; returns (list_of_contexts, end_state)."""
    st = start
    out = []
    i = 0
    n = len(cooked)
    while i < n:
        c = cooked[i]
        if c == "\x00":
            out.append(st)
            i += 1
            continue
        if st == CODE:
            if lang == "js" and c == "/" and cooked[i:i + 2] == "/*":
                st = BLOCK
                i += 2
                continue
            if lang == "js" and c == "/" and cooked[i:i + 2] == "//":
                st = LINE
                i += 2
                continue
            if c == "'" and lang == "js":
                st = SQ
            elif c == '"':
                st = DQ
            elif c == "`" and lang == "js":
                st = BT
        elif st in (SQ, DQ, BT):
            if c == "\\":
                i += 2
                continue
            if (st == SQ and c == "'") or (st == DQ and c == '"') or (st == BT and c == "`"):
                st = CODE
            elif c == "\n" and st in (SQ, DQ) and lang == "js":
                st = CODE
        elif st == BLOCK:
            if cooked[i:i + 2] == "*/":
                st = CODE
                i += 2
                continue
        elif st == LINE:
            if c == "\n":
                st = CODE
        i += 1
    return out, st


class Templates:
    def __init__(self, syn, repo):
        self.syn = syn
        self.repo = repo
        self._files = {}

    def lines(self, file):
        if file not in self._files:
            with open(os.path.join(self.repo, file), encoding="utf-8") as fh:
                self._files[file] = fh.read().split("\n")
        return self._files[file]

    def macros_in(self, file_rx, fn_rx=None):
        for m in self.syn["macros"]:
            if m.get("template") is None:
                continue
            if not re.search(file_rx, m["file"]):
                continue
            if fn_rx and not re.search(fn_rx, m["in"]):
                continue
            yield m

    def placeholders(self, m, lang="js", start=CODE):
        """[(src_line, src_col, name, context)] for one macro record"""
        ls = self.lines(m["file"])
        sp = m["template_span"]
        cooked, phs = scan_literal(ls, sp[0], sp[1])
        if cooked is None:
            return [], None, CODE
        ctx, end = contexts(cooked, start, lang)
        return [(l, c, n, ctx[i] if i < len(ctx) else None) for i, (l, c, n, _) in enumerate(phs)], cooked, end


def display_types(fb, file):
    """(line, col) -> formatted type, from the Argument::new_display / new_debug calls of all bodies of `file`."""
    out = {}
    for f in fb.fns.values():
        if f.file != file:
            continue
        for t in f.calls():
            if t.callee and re.search(r"fmt::rt::Argument::<'_>::new_(display|debug)$", t.callee):
                sp = t.j.get("fsp")
                ty = (t.j.get("atys") or ["?"])[0]
                out[(sp[0], sp[1])] = ty.lstrip("&")
    return out
