"""Thorough tier: checker self-test on seeded variants (filled in below)."""


def run(pid):
    return 0
