"""Thorough tier: checker self-test.

Every patch kept under variants/<ID>/ (my own mutants and reverts of the fix commits) and seeded/<ID>-*/
(changes produced by independent sub-agents and confirmed by hand), and every behaviour-preserving refactoring under
refactors/ that is mapped to the property, is applied to a scratch copy of the CURRENT
working tree of the repository (never to the repository itself), facts are re-extracted from that copy and the
property's rules are run on it. A variant that is expected to be caught must produce a VIOLATION; a seeded change
recorded as a miss must still be a miss (otherwise its record is out of date); on a refactoring the check must exit 0
(anything else is a false alarm of the checker). Nothing is executed from the
repository: each run is the same static analysis on a different source tree.

Outcome: 0 = all expectations met; 2 (CHECK-ERROR) = a variant that used to be detected is no longer detected.
Patches that no longer apply to the current tree are reported as stale and skipped.
"""
import glob, json, os, shutil, subprocess, sys, tempfile, time

VERIF = os.path.dirname(os.path.dirname(os.path.abspath(__file__)))
REPO = os.environ.get("VERIF_REPO", "/repo")


def patches_for(pid):
    out = []
    for p in sorted(glob.glob(os.path.join(VERIF, "variants", pid, "*.patch"))):
        out.append((os.path.relpath(p, VERIF), p, True))
    for d in sorted(glob.glob(os.path.join(VERIF, "seeded", "*-*"))):
        p = os.path.join(d, "patch.diff")
        if not os.path.exists(p):
            continue
        own = os.path.basename(d).startswith(pid + "-")
        caught, checked_by = True, None
        try:
            with open(os.path.join(d, "meta.json")) as fh:
                meta = json.load(fh)
            caught = not str(meta.get("caught_by", "")).upper().startswith("NOT CAUGHT")
            checked_by = meta.get("checked_by")      # a seed may be caught by another property's check
        except OSError:
            pass
        if checked_by:
            if pid in checked_by:
                out.append((os.path.relpath(p, VERIF), p, caught))
            elif own:
                out.append((os.path.relpath(p, VERIF), p, False))
        elif own:
            out.append((os.path.relpath(p, VERIF), p, caught))
    return out


def refactors_for(pid):
    """behaviour-preserving refactorings mapped to this property: the check must stay silent on them"""
    try:
        with open(os.path.join(VERIF, "refactors", "index.json")) as fh:
            idx = json.load(fh)["patches"]
    except OSError:
        return []
    return [(os.path.join("refactors", n), os.path.join(VERIF, "refactors", n)) for n, v in sorted(idx.items())
            if pid in v.get("properties", [])]


def run(pid):
    pats = patches_for(pid)
    pats = [(r, p, "caught" if c else "miss") for r, p, c in pats]
    if not os.environ.get("VERIF_SELFTEST_SKIP_REFACTORS"):
        pats += [(r, p, "silent") for r, p in refactors_for(pid)]
    if not pats:
        print("[%s] self-test: no variants recorded" % pid)
        return 0
    base = tempfile.mkdtemp(prefix="verif-selftest-%s-" % pid, dir="/var/tmp")
    scratch = os.path.join(base, "repo")
    results = []
    t0 = time.time()
    try:
        subprocess.run(["rsync", "-a", "--exclude", "/target", "--exclude", "/.git", "--exclude", "node_modules",
                        REPO.rstrip("/") + "/", scratch + "/"], check=True)
        subprocess.run(["git", "init", "-q"], cwd=scratch, check=True)
        subprocess.run("git add -A >/dev/null && git -c user.name=s -c user.email=s@s commit -qm base", cwd=scratch, shell=True, check=True)
        env = dict(os.environ, VERIF_REPO=scratch, VERIF_TARGET=os.path.join(base, "target"),
                   VERIF_EVIDENCE_DIR=os.path.join(base, "evidence"), VERIF_TIER="quick")
        for rel, path, expect in pats:
            expect_caught = expect == "caught"
            a = subprocess.run(["git", "apply", path], cwd=scratch, stdout=subprocess.PIPE, stderr=subprocess.STDOUT, text=True)
            if a.returncode != 0:
                results.append((rel, "stale", "does not apply to the current tree"))
                continue
            p = subprocess.run([sys.executable, os.path.join(VERIF, "rules", "engine.py"), pid, "--tier", "quick"], env=env,
                               stdout=subprocess.PIPE, stderr=subprocess.STDOUT, text=True)
            subprocess.run("git checkout -q -- . && git clean -fdq", cwd=scratch, shell=True)
            viol = [l for l in p.stdout.splitlines() if l.startswith("VIOLATION property=%s" % pid)]
            fails = [l.strip() for l in p.stdout.splitlines() if l.strip().startswith("FAILS ")]
            if expect == "silent":
                verdict = "silent (as required)" if p.returncode == 0 else "FALSE-ALARM"
                results.append((rel, verdict, (fails[0][:160] if fails else (p.stdout.strip().splitlines() or [""])[-1][:160]) if p.returncode else ""))
                continue
            if p.returncode == 1 and viol:
                verdict = "caught" if expect_caught else "caught-but-recorded-as-miss"
            elif p.returncode == 0:
                verdict = "MISSED" if expect_caught else "miss (as recorded)"
            else:
                verdict = "check-error" if expect_caught else "miss (as recorded)"
            results.append((rel, verdict, (fails[0][:160] if fails else p.stdout.strip().splitlines()[-1][:160] if p.stdout.strip() else "")))
    finally:
        shutil.rmtree(base, ignore_errors=True)
    bad = [r for r in results if r[1] in ("MISSED", "check-error", "FALSE-ALARM")]
    for rel, verdict, detail in results:
        print("[%s] self-test %-28s %s  %s" % (pid, verdict, rel, detail))
    # append to the evidence file written by the run on the real tree
    evp = os.path.join(os.environ.get("VERIF_EVIDENCE_DIR", os.path.join(VERIF, "evidence")), pid + ".json")
    try:
        with open(evp) as fh:
            ev = json.load(fh)
        ev["coverage"]["self_test"] = {
            "what": "each recorded variant applied to a scratch copy of the current tree, facts re-extracted, rules re-run",
            "variants": [{"patch": r, "verdict": v, "first_report": d} for r, v, d in results],
            "caught": sum(1 for r in results if r[1] == "caught"), "stale": sum(1 for r in results if r[1] == "stale"),
            "refactorings_silent": sum(1 for r in results if r[1].startswith("silent")),
            "recorded_misses": sum(1 for r in results if r[1].startswith("miss")), "seconds": round(time.time() - t0, 1)}
        with open(evp, "w") as fh:
            json.dump(ev, fh, indent=1)
    except (OSError, KeyError, ValueError):
        pass
    if bad:
        print("CHECK-ERROR property=%s self-test: %d expectation(s) not met (variant no longer detected, or an alarm on a "
              "behaviour-preserving refactoring): %s" % (pid, len(bad), [b[0] for b in bad]))
        return 2
    return 0
