"""UNITS: infer a unit in {byte, char, utf16, line} for integer locals of a MIR body.

Sources are calls and field reads whose unit is fixed by the standard library / the repo's own types:
  str::len, String::len, char::len_utf8, str::find/rfind, CharIndices index, Span.start/.end  -> byte
  Chars::count, Enumerate<Chars> index                                                           -> char
  EncodeUtf16 count, char::len_utf16, lsp Position.character                                     -> utf16
Units propagate through copies, casts, + - min max saturating_sub and tuple/Option payloads.
Nothing is executed; this is a flow-insensitive may-analysis per function.
"""
import re
from factbase import op_place, op_const
from rulelib import local_defs

BYTE, CHAR, UTF16, LINE = "byte", "char", "utf16", "line"
ANY = "any"   # a length of ASCII-only text (GraphQL names): the same number in every unit

IDENT_TYPES = r"(EntityName|SelectableName|ClientScalarSelectableName|ClientObjectSelectableName|ServerScalarSelectableName|VariableName|FieldArgumentName|SelectableAlias)"

SRC_CALLS = [
    (r"core::str::<impl str>::len$|string::String::len$|char::methods::<impl char>::len_utf8$|"
     r"core::str::<impl str>::(find|rfind)$", BYTE),
    (r"char::methods::<impl char>::len_utf16$", UTF16),
]
BYTE_FIELDS = {("Span", "start"), ("Span", "end")}


def _iter_kind(ty):
    """unit of the index produced by an iterator type string"""
    if "CharIndices" in ty:
        return BYTE
    if re.search(r"Enumerate<[^>]*Chars", ty):
        return CHAR
    if re.search(r"MatchIndices", ty):
        return BYTE
    return None


class Units:
    def __init__(self, fb, fn, summaries=None, field_units=None):
        self.fb = fb
        self.fn = fn
        self.summaries = summaries or {}
        self.field_units = field_units or {}
        self.u = {}          # (local, proj tuple) -> set(units)
        self.counter = self._counters()
        self._solve()

    def _counters(self):
        """`x += 1` inside a loop over a recognised iterator counts that iterator's items:
        Chars / CharIndices -> char, Bytes -> byte, EncodeUtf16 -> utf16, Lines -> line; under a `ch == '\\n'` guard
        it counts lines. Returns {(bb, stmt idx): unit}."""
        fn = self.fn
        out = {}
        loops = []
        for b in fn.blocks:
            t = b.term
            if t.op == "call" and re.search(r"Iterator>?::next$", t.declared or t.callee or "") and t.j.get("atys"):
                ty = t.j["atys"][0]
                k = None
                if "EncodeUtf16" in ty:
                    k = UTF16
                elif re.search(r"Chars<|CharIndices<", ty):
                    k = CHAR
                elif re.search(r"str::Bytes<", ty):
                    k = BYTE
                elif re.search(r"str::Lines<|SplitTerminator<|Split<", ty):
                    k = LINE
                if k:
                    body = {x for x in fn.reachable(b.i) if b.i in fn.reachable(x)}
                    loops.append((k, body))
        if not loops:
            return out
        nl_regions = set()
        for b in fn.blocks:
            for s in b.stmts:
                if s.rv == "binop" and s.j["binop"] == "Eq" and any(
                        (op_const(o) or {}).get("ty") == "char" and (op_const(o) or {}).get("v") in ("\n", "'\\n'", "\\n") for o in s.ops):
                    t = b.term
                    if t.op == "switch" and op_place(t.j["discr"]) is not None and op_place(t.j["discr"]).local == s.dst.local:
                        zero = [tg for v, tg in t.j["arms"] if str(v) == "0"]
                        tt = t.j.get("otherwise")
                        if tt is not None and zero:
                            nl_regions |= {x for x in range(len(fn.blocks)) if fn.dominates(tt, x)}
        for b in fn.blocks:
            for i, s in enumerate(b.stmts):
                if s.rv != "binop" or not re.match(r"Add", s.j["binop"]) or len(s.ops) != 2:
                    continue
                c = op_const(s.ops[1])
                x = op_place(s.ops[0])
                if not c or str(c.get("v")) != "1" or x is None or x.proj:
                    continue
                # the sum is written back to the same variable
                back = any(d.dst is not None and d.dst.local == x.local and not d.dst.proj and any(
                    q.local == s.dst.local for q in d.reads()) for d in fn.stmts())
                if not back:
                    continue
                if b.i in nl_regions:
                    out[(b.i, i)] = LINE
                    continue
                ks = {k for k, body in loops if b.i in body}
                if len(ks) == 1:
                    out[(b.i, i)] = ks.pop()
        return out

    def get(self, place):
        if place is None:
            return set()
        out = set(self.u.get((place.local, place.proj), ()))
        if not out and place.proj:
            # a projection of a tracked aggregate: inherit from the longest known prefix
            for k in range(len(place.proj) - 1, -1, -1):
                out = set(self.u.get((place.local, place.proj[:k]), ()))
                if out:
                    # only downcast/deref projections keep the unit; field of tuple keeps per-field info only
                    if all(p == "*" or p.startswith("@") for p in place.proj[k:]):
                        return out
                    return set()
        return out

    def _add(self, key, units):
        if not units:
            return False
        cur = self.u.setdefault(key, set())
        n = len(cur)
        cur |= units
        return len(cur) != n

    def op_units(self, o):
        p = op_place(o)
        return self.get(p) if p is not None else set()

    def _field_source(self, place):
        fn = self.fn
        if not place.fields():
            return set()
        last = place.fields()[-1]
        base_ty = fn.local_ty(place.local)
        # Span.start / Span.end (also through WithSpan / EmbeddedLocation .span)
        if last in ("start", "end") and ("Span" in base_ty or "span" in place.fields() or "Location" in base_ty):
            return {BYTE}
        if last == "character" and "Position" in base_ty or last == "character":
            return {UTF16}
        if last == "iso_literal_start_index":
            return {BYTE}
        adt = fn.locals[place.local].get("adt")
        if adt and len(place.fields()) == 1 and (adt, last) in self.field_units:
            return set(self.field_units[(adt, last)])
        return set()

    def _solve(self):
        fn = self.fn
        changed = True
        it = 0
        while changed and it < 30:
            it += 1
            changed = False
            for b in fn.blocks:
                for s in b.stmts:
                    if s.dst is None:
                        continue
                    key = (s.dst.local, s.dst.proj)
                    units = set()
                    if s.rv in ("use", "cast", "copy_for_deref"):
                        for o in s.ops:
                            p = op_place(o)
                            if p is not None:
                                units |= self.get(p) | self._field_source(p)
                        if s.place is not None:
                            units |= self.get(s.place) | self._field_source(s.place)
                    elif s.rv == "binop":
                        if re.match(r"(Add|Sub)", s.j["binop"]):
                            cu = self.counter.get((b.i, b.stmts.index(s)))
                            if cu:
                                units.add(cu)
                            for o in s.ops:
                                units |= self.op_units(o)
                                p = op_place(o)
                                if p is not None:
                                    units |= self._field_source(p)
                        # checked ops produce (value, overflow) tuples
                        if re.match(r"(Add|Sub)WithOverflow", s.j["binop"]):
                            changed |= self._add((s.dst.local, s.dst.proj + (".0",)), units)
                    elif s.rv == "ref":
                        units |= self.get(s.place) | self._field_source(s.place)
                    elif s.rv == "aggregate":
                        # per-field units for tuples / structs
                        names = s.j.get("fields")
                        for i, o in enumerate(s.ops):
                            fu = self.op_units(o)
                            fname = "." + (names[i] if names else str(i))
                            proj = s.dst.proj
                            if s.j.get("agg") == "adt" and s.j.get("variant") not in (None,) and "::" in s.j.get("adt", "") and \
                                    s.j["adt"].split("::")[-1] in ("Option", "Result"):
                                proj = proj + ("@" + s.j["variant"],)
                                fname = ".0"
                            changed |= self._add((s.dst.local, proj + (fname,)), fu)
                        continue
                    changed |= self._add(key, units)
                t = b.term
                if t.op != "call" or t.dst is None:
                    continue
                key = (t.dst.local, t.dst.proj)
                callee = t.callee or t.declared or ""
                units = set()
                for rx, unit in SRC_CALLS:
                    if re.search(rx, callee):
                        units.add(unit)
                if re.search(r"core::str::<impl str>::len$", callee) and t.args:
                    # len() of the text of an identifier newtype (ASCII by the lexers' identifier rule)
                    a = op_place(t.args[0])
                    if a is not None:
                        src = [d for d in local_defs(fn, a.local)]
                        for d in src:
                            if not hasattr(d, "rv") and re.search(r"Lookup>?::lookup$", d.declared or d.callee or "") and \
                                    re.search(IDENT_TYPES, " ".join(d.j.get("atys", []))):
                                units = {ANY}
                            if hasattr(d, "rv"):
                                for q in d.reads():
                                    for d2 in local_defs(fn, q.local):
                                        if not hasattr(d2, "rv") and re.search(r"Lookup>?::lookup$", d2.declared or d2.callee or "") and \
                                                re.search(IDENT_TYPES, " ".join(d2.j.get("atys", []))):
                                            units = {ANY}
                aty = t.j.get("atys", [])
                if re.search(r"Iterator>?::count$", t.declared or callee) and aty:
                    if "EncodeUtf16" in aty[0]:
                        units.add(UTF16)
                    elif re.search(r"Chars<", aty[0]):
                        units.add(CHAR)
                    elif "Lines" in aty[0] or "Split<" in aty[0]:
                        units.add(LINE)
                if re.search(r"Iterator>?::next$", t.declared or callee) and aty:
                    k = _iter_kind(aty[0])
                    if k:
                        changed |= self._add((t.dst.local, t.dst.proj + ("@Some", ".0", ".0")), {k})
                if re.search(r"(saturating_sub|saturating_add|wrapping_sub|wrapping_add|checked_sub|checked_add)$|cmp::(min|max)$|Ord>?::(min|max)$|"
                             r"convert::(Into|From|TryInto|TryFrom)<.*>>?::(into|from|try_into|try_from)$|"
                             r"(result::Result|option::Option)::<.*>::(unwrap|expect|unwrap_or|unwrap_or_default)$|Span::as_usize$", callee + "|" + (t.declared or "")):
                    for a in t.args:
                        units |= self.op_units(a)
                        p = op_place(a)
                        if p is not None:
                            units |= self._field_source(p)
                if callee in self.summaries:
                    units |= self.summaries[callee]
                for i in range(4):
                    k2 = (callee, i)
                    if k2 in self.summaries:
                        changed |= self._add((t.dst.local, t.dst.proj + (".%d" % i,)), self.summaries[k2])
                changed |= self._add(key, units)
        return self.u


def return_units(fb, fns):
    """unit summaries of workspace functions returning an integer: units of `_0`"""
    summ = {}
    for _ in range(3):
        for f in fns:
            if re.match(r"\((u32|usize|u64), (u32|usize|u64)\)$", f.ret or ""):
                u = Units(fb, f, summ)
                for i in range(2):
                    r = set(u.u.get((0, (".%d" % i,)), ()))
                    if r:
                        summ[(f.id, i)] = r
                continue
            if not re.match(r"(u32|usize|u64|i32|i64)$", f.ret or ""):
                continue
            u = Units(fb, f, summ)
            r = set(u.u.get((0, ()), ()))
            if r:
                summ[f.id] = r
    return summ


def adt_field_units(fb, fns, summaries=None):
    """units stored into fields of workspace ADTs by aggregate construction anywhere in `fns`"""
    out = {}
    for _ in range(2):
        for f in fns:
            u = Units(fb, f, summaries, out)
            for s in f.stmts():
                if s.rv == "aggregate" and s.j.get("agg") == "adt" and s.j.get("fields"):
                    for name, o in zip(s.j["fields"], s.ops):
                        un = u.op_units(o)
                        p = op_place(o)
                        if p is not None:
                            un |= u._field_source(p)
                        if un:
                            out.setdefault((s.j["adt"], name), set()).update(un)
    return out
