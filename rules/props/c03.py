"""C03 — Garbage collection keeps retained results and never breaks reads."""
import re
from rulelib import *
from factbase import AnchorError, op_place, op_const
from props import pico_shared

TITLE = "Garbage collection keeps retained results and never breaks reads"
TECHNIQUE = "compile-fail borrow witnesses + MIR who-may-call / dataflow / must-pass-through rules over pico GC"
EXPLANATION = (
    "Decides (a) the borrow discipline that makes dangling references impossible: compile_fail witnesses show that a "
    "looked-up / memoized &T cannot be held across run_garbage_collection, set or remove and cannot be 'static; "
    "(b) ownership of the unsafe dereference: the only unsafe blocks of pico are RawPtr::as_ref and the RawPtr arms "
    "of MemoRef::lookup{,_tracked}, RawPtr values are created only by intern_ref; (c) the GC root set derives from "
    "both the LRU cache and retained_calls after top_level_calls was drained into the LRU, every kept node has its "
    "dependencies enqueued, kept revisions copy time_updated/time_verified, all five containers are replaced; "
    "(d) retain counts: clear_retain removes an entry only when the decremented count is zero. LRU-capacity "
    "behaviour, 'served without re-execution' over histories and absence of UB at run time are not decided.")
ASSUMPTIONS = ["rustc's borrow checker is sound for the witnesses' programs",
               "MIR at -Zmir-opt-level=0 preserves source control flow"]

UNSAFE_OWNERS = {
    "pico::raw_ptr::RawPtr::<T>::as_ref": "the unsafe accessor itself (unsafe fn)",
    "pico::memo_ref::MemoRef::<T>::lookup": "RawPtr arm: value owned by a derived node of this database",
    "pico::memo_ref::MemoRef::<T>::lookup_tracked": "RawPtr arm: value owned by a derived node of this database",
}


def non_test(f):
    return "/tests/" not in f.file


def run(cx):
    fb = cx.mir("pico")
    pico = [f for f in fb.fns.values() if f.crate == "pico" and non_test(f)]

    cx.witness_obligations("R03.borrow", [
        ("W3MemoValueAcrossGc", "a memoized &T must not be usable after run_garbage_collection"),
        ("W4LookupAcrossGc", "MemoRef::lookup (raw-pointer kind) result must not be usable after GC"),
        ("W5LookupTrackedAcrossGc", "MemoRef::lookup_tracked result must not be usable after GC"),
        ("W6LookupNotStatic", "a looked-up reference must not be 'static"),
        ("W9GcNeedsMut", "run_garbage_collection must need exclusive access"),
        ("W2MemoRefAcrossSet", "a memoized &T must not be usable after a source write"),
    ])

    # ---- R03.unsafe-owners ------------------------------------------------
    unsafe_fns = [f for f in pico if f.unsafe_blocks]
    cx.floor("R03.unsafe-owners functions with unsafe blocks", len(unsafe_fns), 1)
    # the reviewed owners, closed under private helpers that are called by owners only (extracting the body of
    # lookup / lookup_tracked into a private function does not create a new way into the unsafe code)
    callers = {}
    for g_ in pico:
        for t_ in g_.calls():
            if t_.callee in fb.fns:
                callers.setdefault(t_.callee, set()).add(g_.root or g_.id)
    owners = set(UNSAFE_OWNERS)
    for _ in range(4):
        for f in pico:
            if f.id in owners or f.j.get("vis") in ("pub", "public"):
                continue
            cs = callers.get(f.id, set())
            if cs and cs <= owners:
                owners.add(f.id)
    cx.extra["unsafe_owner_cone"] = sorted(owners)
    for f in unsafe_fns:
        cx.ob("R03.unsafe-owners", f.id + "|unsafe-block", f.id in owners,
              "unsafe block outside the reviewed owners (RawPtr::as_ref, MemoRef::lookup, MemoRef::lookup_tracked and "
              "private helpers called only by them)", f.loc(f.unsafe_blocks[0]))
    for t in fb.calls_to(r"raw_ptr::RawPtr::<T>::as_ref$"):
        if not non_test(t.fn):
            continue
        cx.ob("R03.unsafe-owners", t.fn.id + "|calls-as_ref", t.fn.id in owners,
              "RawPtr::as_ref called outside MemoRef::lookup{,_tracked}", t.fn.loc(t.line))
    froms = [t for t in fb.calls_to(r"raw_ptr::RawPtr::<T>::from_ref$") if non_test(t.fn)]
    cx.floor("R03.unsafe-owners RawPtr::from_ref call sites", len(froms), 1)
    for t in froms:
        cx.ob("R03.unsafe-owners", t.fn.id + "|calls-from_ref", t.fn.id == "pico::database::intern_ref",
              "RawPtr created outside intern_ref", t.fn.loc(t.line))
    # RawPtr aggregate constructed only in from_ref; MemoRefKind::RawPtr produced only in intern_ref
    for f in pico:
        for a in aggregates(f, r"^pico::raw_ptr::RawPtr$"):
            cx.ob("R03.unsafe-owners", f.id + "|builds-RawPtr", f.id == "pico::raw_ptr::RawPtr::<T>::from_ref",
                  "RawPtr constructed outside RawPtr::from_ref", f.loc(a.line))
        for a in aggregates(f, r"^pico::memo_ref::MemoRefKind$", variant="RawPtr"):
            cx.ob("R03.unsafe-owners", f.id + "|builds-MemoRefKind::RawPtr", f.id == "pico::database::intern_ref",
                  "a MemoRef of the raw-pointer kind is produced outside intern_ref (lookup would reinterpret a "
                  "stored value as a pointer)", f.loc(a.line))
    # in lookup*, as_ref is reached only on the RawPtr arm of `match self.kind`
    kind_fns = [(f, s_) for f in pico for s_ in discr_switches(f) if s_["adt"] == "pico::memo_ref::MemoRefKind"
                and blocks_calling(f, r"downcast_ref$")]
    cx.floor("R03.unsafe-owners functions interpreting a stored value by MemoRefKind", len(kind_fns), 1)
    for f, sw in kind_fns:
        asref = set(blocks_calling(f, r"RawPtr::<T>::as_ref$"))
        val_region = reachable_from(f, sw["arms"]["Value"])
        cx.ob("R03.unsafe-owners", f.id + "|deref-only-on-RawPtr-kind", bool(asref) and not (asref & val_region)
              and not sw["wildcard"], "the raw pointer is dereferenced on the Value arm (or kinds are wildcarded)",
              f.loc())
        # downcast target on each arm
        dc = {}
        for arm, tgt in sw["arms"].items():
            reg = reachable_from(f, tgt) - (reachable_from(f, [t for a, t in sw["arms"].items() if a != arm][0]))
            for b in reg:
                t = f.blocks[b].term
                if term_calls(t, r"downcast_ref$"):
                    dc[arm] = t.targs[-1] if t.targs else "?"
        cx.ob("R03.unsafe-owners", f.id + "|downcast-matches-kind",
              "RawPtr" in dc.get("RawPtr", "") and "RawPtr" not in dc.get("Value", "RawPtr"),
              "each MemoRefKind arm must downcast to the representation stored for that kind", f.loc(),
              detail=str(dc))

    # ---- R03.roots ---------------------------------------------------------
    g = fb.one(r"pico::database::Storage::<Db>::run_garbage_collection$")
    inner = [t for t in g.calls() if term_calls(t, r"InternalStorage<Db>>::run_garbage_collection$")]
    if len(inner) != 1:
        raise AnchorError("Storage::run_garbage_collection: expected one call of the internal collector")
    root_arg = op_place(inner[0].args[1])

    def reads_field(field):
        def pred(d):
            if hasattr(d, "rv"):
                return any(field in p.fields() for p in d.reads())
            return False
        return pred

    for field in ("top_level_call_lru_cache", "retained_calls"):
        d = local_flows_from(g, root_arg.local, reads_field(field), depth=20)
        cx.ob("R03.roots", g.id + "|roots-include-" + field, d is not None,
              "the GC root iterator does not derive from %s: results it protects would be collected" % field,
              g.loc(inner[0].line))
    take = [t for t in g.calls() if term_calls(t, r"mem::take$")]
    put = blocks_calling(g, r"LruCache::<K, V, S>::put$")
    lru_iter = blocks_calling(g, r"LruCache::<K, V, S>::iter$")
    ok = bool(take) and bool(put) and bool(lru_iter) and all(g.dominates(take[0].bb, b) for b in lru_iter)
    # every path to the root read passes the drain loop's exit (iterator exhausted): the loop header dominates
    nexts = blocks_calling(g, r"Iterator>::next$")
    ok = ok and bool(nexts) and all(g.dominates(nexts[0], b) for b in lru_iter)
    tk = local_flows_from(g, op_place(take[0].args[0]).local, reads_field("top_level_calls")) if take else None
    cx.ob("R03.roots", g.id + "|top-level-calls-drained-first", ok and tk is not None,
          "top_level_calls must be drained into the LRU cache before the roots are read", g.loc())
    # put receives the drained ids
    cx.count(len(put))

    # every drained top-level call refreshes its LRU position
    nxt = nexts
    sw_ = None
    for t in g.calls():
        if term_calls(t, r"Iterator>::next$"):
            sw_ = switch_on_call_result(g, t)
    if sw_ is None or "Some" not in sw_["arms"]:
        raise AnchorError("Storage::run_garbage_collection: drain loop not recognised")
    pth = path_without(g, sw_["arms"]["Some"], nxt, put)
    cx.ob("R03.roots", g.id + "|every-call-refreshes-lru", pth is None,
          "a recorded top-level call can skip LruCache::put: re-calling a cached query no longer refreshes its "
          "recency, so one of the most recently called queries is evicted and collected", g.loc(),
          detail=fmt_path(g, pth) if pth else None)
    pico_shared.gc_index_fidelity(cx, fb, "R03.gc-index-fidelity")
    pico_shared.node_stability(cx, fb, "R03.node-stability")

    # ---- R03.trace ----------------------------------------------------------
    c = fb.one(r"InternalStorage<Db>>::run_garbage_collection$")
    add = blocks_calling(c, r"garbage_collection::add_dependencies_to_queue$")
    ins = [b for b in blocks_calling(c, r"DashMap::<K, V, S>::insert$")]
    # revisions built in the collector: struct literals, or calls of a constructor that forwards its parameters
    revs = [(r.bb, r.line, {n: o for n, o in zip(r.j.get("fields", []), r.ops)}) for r in aggregates(c, r"^pico::derived_node::DerivedNodeRevision$")]
    for t in c.calls():
        k_ = fb.fns.get(t.callee)
        if k_ is None or k_.crate != "pico" or k_ is c:
            continue
        for r in aggregates(k_, r"^pico::derived_node::DerivedNodeRevision$"):
            import samesrc
            m_ = {}
            for n, o in zip(r.j.get("fields", []), r.ops):
                pl = op_place(o)
                pr = samesrc.producer(k_, pl.local) if pl is not None else None
                if pr and pr[0] == "param" and pr[1] - 1 < len(t.args):
                    m_[n] = t.args[pr[1] - 1]
            if m_:
                revs.append((t.bb, t.line, m_))
    if len(add) != 1 or not revs:
        raise AnchorError("collector: expected one add_dependencies_to_queue call and a DerivedNodeRevision")
    cx.ob("R03.trace", c.id + "|deps-enqueued-for-kept-node", all(c.dominates(add[0], bb_) for bb_, _, _ in revs),
          "a node is kept without its dependencies being enqueued (reachable nodes would be dropped)", c.loc())
    for bb_, line_, fm in revs:
        f0 = op_place(fm.get("time_updated")) if fm.get("time_updated") is not None else None
        f1 = op_place(fm.get("time_verified")) if fm.get("time_verified") is not None else None
        src0 = local_flows_from(c, f0.local, lambda d: hasattr(d, "rv") and any(p.last_field() == "time_updated" for p in d.reads())) if f0 else None
        src1 = local_flows_from(c, f1.local, lambda d: hasattr(d, "rv") and any(p.last_field() == "time_verified" for p in d.reads())) if f1 else None
        cx.ob("R03.trace", c.id + "|revision-times-preserved", src0 is not None and src1 is not None,
              "a kept revision must copy time_updated/time_verified from the old revision (otherwise retained "
              "results are re-executed or wrongly reused)", c.loc(line_))
    q = fb.one(r"pico::garbage_collection::add_dependencies_to_queue$")
    fam = [(g_, s_) for g_ in fb.with_closures(q) for s_ in discr_switches(g_) if s_["adt"] == "pico::dependency::NodeKind"]
    if len(fam) != 1:
        raise AnchorError("add_dependencies_to_queue: expected one match on NodeKind (in the function or a closure of it)")
    qb, sw = fam[0]
    if qb is q:
        nxt = blocks_calling(q, r"Iterator>::next$|Iterator::next$")
        push = blocks_calling(q, r"vec::Vec::<T, A>::push$")
        p = path_without(q, sw["arms"]["Derived"], nxt + q.return_blocks(), push) if "Derived" in sw["arms"] else [0]
        ok_push = p is None
    else:
        # iterator form: queue.extend(deps.filter_map(|dep| match dep.node_to { Derived(id) => Some(id) (if new), .. }))
        some = [b_.i for b_ in qb.blocks for st_ in b_.stmts if st_.rv == "aggregate" and st_.j.get("variant") == "Some"]
        reach = reachable_from(qb, sw["arms"]["Derived"]) if "Derived" in sw["arms"] else set()
        ok_push = any(b_ in reach for b_ in some) and bool(blocks_calling(q, r"Extend<.*>>?::extend$|vec::Vec::<T, A>::push$|Vec::<T, A>::extend"))
        p = None if ok_push else [sw["arms"].get("Derived", 0)]
    cx.ob("R03.trace", q.id + "|derived-deps-pushed", ok_push,
          "a Derived dependency is not pushed onto the GC queue", q.loc(), detail=fmt_path(qb, p) if p else None)
    fields = ["params", "derived_nodes", "param_id_to_index", "derived_node_id_to_revision",
              "derived_node_dependencies"]
    found = 0
    for fld in fields:
        st = [s for s in stores_to_field(c, fld) if not c.blocks[s.bb].cleanup]
        ev = [s.bb for s in st]
        p = path_without(c, 0, c.return_blocks(), ev)
        if st:
            found += 1
        cx.ob("R03.trace", c.id + "|replaces-" + fld, bool(st) and p is None,
              "GC returns without replacing %s (stale indices would point into the wrong container)" % fld, c.loc())
    cx.floor("R03.trace container stores", found, 5)
    # new containers only: the value stored into each field is a local created by ::new() in this function
    # ---- R03.retain-count -----------------------------------------------------
    cr = fb.one(r"pico::retained_query::clear_retain$")
    rm = blocks_calling(cr, r"OccupiedEntry::<'a, K, V>::remove$")
    eqs = [t for t in cr.calls() if re.search(r"PartialEq(<.*>)?>?::eq$", t.declared or "")]
    ok = False
    detail = None
    if rm and eqs:
        try:
            tt, ft = call_bool_branch(cr, eqs[0])
            ok = all(cr.dominates(tt, b) for b in rm) and not (set(rm) & reachable_from(cr, ft) - reachable_from(cr, tt))
        except AnchorError as e:
            detail = str(e)
    subs = [s for s in cr.stmts() if s.rv == "binop" and s.j["binop"].startswith("Sub")]
    cx.ob("R03.retain-count", cr.id + "|remove-only-at-zero", ok and bool(subs),
          "clear_retain must drop the root only when the decremented count reaches zero", cr.loc(), detail=detail)
    rt = fb.one(r"pico::retained_query::retain$")
    rt_fam = cone_fns(fb, owner_cone(fb, [rt.id], crates={"pico"}))
    adds = [s for g_ in rt_fam for s in g_.stmts() if s.rv == "binop" and s.j["binop"].startswith("Add")]
    vins = [t for g_ in rt_fam for t in g_.calls() if term_calls(t, r"VacantEntry::<'a, K, V>::insert$")]
    one = any(op_const(t.args[1]) and op_const(t.args[1]).get("v") == "1" for t in vins)
    cx.ob("R03.retain-count", rt.id + "|counts", bool(adds) and one,
          "retain must insert a count of 1 or increment the existing count", rt.loc())
