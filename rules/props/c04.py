"""C04 — Distinct memoized functions never share cached results."""
import re
from rulelib import *
from factbase import AnchorError, op_place, op_const
from props import pico_shared

TITLE = "Distinct memoized functions never share cached results"
TECHNIQUE = "constant-table extraction from #[memo] expansions in MIR (workspace + never-run probe crate)"
EXPLANATION = (
    "From the MIR of every body expanded from #[memo] in the workspace, the u64 constant flowing into "
    "DerivedNodeId::new is read and all constants are required to be pairwise distinct (decides the concrete set of "
    "memoized functions in this repository exactly). For the 'all programs' half a never-run probe crate defines two "
    "memoized functions with textually identical signatures in two modules; their key operands must differ. The "
    "intern_value / intern_ref node ids are keyed by the value hash and a wrapper type keeps the two families apart. "
    "64-bit hash collisions between different signatures are not decided beyond the concrete constants.")
ASSUMPTIONS = ["the function key is the first operand of DerivedNodeId::new in the #[memo] expansion"]


def memo_key(f):
    """(kind, value) of the first DerivedNodeId::new argument in a #[memo]-expanded body."""
    out = []
    for t in f.calls():
        if not term_calls(t, r"DerivedNodeId::new$"):
            continue
        a = op_place(t.args[0])
        if a is None:
            c = op_const(t.args[0])
            out.append(("const", c.get("v")))
            continue
        defs = local_defs(f, a.local)
        val = None
        for d in defs:
            if not hasattr(d, "rv") and term_calls(d, r"Into<U>>::into$|From<.*>>::from$"):
                c = op_const(d.args[0])
                if c is not None and "v" in c:
                    val = ("const", c["v"])
                else:
                    val = ("computed", repr(d))
        out.append(val or ("computed", str([repr(d) for d in defs])))
    return out


def run(cx):
    fb = cx.mir()
    memo_fns = [f for f in fb.fns.values() if f.from_macro("memo") and f.j["defkind"] in ("Fn", "AssocFn")
                and "/tests/" not in f.file and f.crate != "pico"]
    cx.floor("R04.workspace-keys #[memo] functions outside pico's tests", len(memo_fns), 51)
    keys = {}
    for f in memo_fns:
        ks = memo_key(f)
        if len(ks) != 1 or ks[0] is None:
            raise AnchorError("memo expansion of %s: cannot read the function key (%s)" % (f.id, ks))
        kind, v = ks[0]
        cx.count()
        if kind != "const":
            raise AnchorError("memo key of %s is not a compile-time constant; the key-table rule cannot decide "
                              "distinctness (adapt memo_key())" % f.id)
        keys.setdefault(v, []).append(f)
    for v, fs in sorted(keys.items()):
        if len(fs) > 1:
            cx.ob("R04.workspace-keys", "collision|" + "|".join(sorted(f.id for f in fs)), False,
                  "memoized functions share the key constant %s: same-argument calls return each other's cached "
                  "result" % v, fs[0].loc())
    cx.ob("R04.workspace-keys", "pairwise-distinct", all(len(fs) == 1 for fs in keys.values()),
          "all %d #[memo] key constants in the workspace are pairwise distinct" % len(keys), "workspace")

    # ---- probe: identical signatures in two modules ---------------------------
    pb = cx.probe()
    a = pb.one(r"witness::probe_a::same$")
    b = pb.one(r"witness::probe_b::same$")
    ka, kb = memo_key(a), memo_key(b)
    if len(ka) != 1 or len(kb) != 1:
        raise AnchorError("probe: cannot read memo keys")
    if ka[0][0] != "const" or kb[0][0] != "const":
        raise AnchorError("probe memo keys are not compile-time constants: %s %s" % (ka, kb))
    same = ka[0][1] == kb[0][1]
    cx.ob("R04.site-unique", "pico_macros::memo|key=hash(sig)", not same,
          "two memoized functions with the same signature text in different modules get the same key (%s): "
          "the key does not depend on the definition site" % (ka[0][1],), "crates/pico_macros/src/memo_macro.rs",
          detail="probe_a::same key=%s probe_b::same key=%s" % (ka[0], kb[0]))

    # ---- interned values vs interned refs vs memo fns -----------------------------
    p = cx.mir("pico")
    iv = p.one(r"pico::database::intern_value$")
    ir = p.one(r"pico::database::intern_ref$")
    wrap = aggregates(iv, r"InternValueWrapper$")
    h_iv = [t for t in iv.calls() if term_calls(t, r"macro_fns::hash$")]
    h_ir = [t for t in ir.calls() if term_calls(t, r"macro_fns::hash$")]
    ok = bool(wrap) and len(h_iv) == 1 and len(h_ir) == 1 and "InternValueWrapper" in " ".join(h_iv[0].targs) \
        and "InternValueWrapper" not in " ".join(h_ir[0].targs)
    cx.ob("R04.intern-families", "intern_value-vs-intern_ref", ok,
          "intern_value must hash a wrapper type so that value- and ref-interned nodes of equal content get "
          "different ids (a Value-kind MemoRef would otherwise read a RawPtr or vice versa)", iv.loc())
    # garbage collection keeps the id -> (value, dependencies) association
    pico_shared.gc_index_fidelity(cx, p, "R04.gc-index-fidelity")
    hf = p.one(r"pico::macro_fns::hash$")
    tid = [t for t in hf.calls() if term_calls(t, r"TypeId::of$")]
    cx.ob("R04.intern-families", "hash-includes-type-id", len(tid) == 1,
          "param/intern hashes must mix in TypeId so that equal bytes of different types do not collide", hf.loc())
