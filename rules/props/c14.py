"""C14 — Compilation output is deterministic."""
import re
from rulelib import *
from factbase import AnchorError, op_place, op_const
import samesrc
from props.printer_shared import PRINTER_CRATES
from props.c13 import loadable_flag_rule

TITLE = "Compilation output is deterministic"
TECHNIQUE = "enumeration of unordered-container iterations in MIR with consumer classification + reviewed table; type-shape rule on the merged IR; dataflow rule on the diagnostics vector"
EXPLANATION = (
    "Every iteration over a HashMap / HashSet / DashMap (any hasher) in the compiler crates is enumerated from MIR. "
    "A site is accepted automatically when its consumer is order-insensitive (collect / extend into a keyed or "
    "sorted container, a following sort of the collected vector) and otherwise must be in the reviewed table (one "
    "line of reason each: re-keyed by artifact path, diagnostics re-sorted through the BTreeSet of "
    "validate_entire_schema, file-system operations commute, counts); unreviewed sites and sites reviewed as "
    "order-sensitive are reported. The diagnostics returned by validate_entire_schema must be collected from its "
    "BTreeSet only. Types reachable from the merged selection map and the refetch path map contain no hash-ordered "
    "container. State shared between entrypoints (the encountered-client-field cache) is updated independently of "
    "visiting order: a field selected @loadable sets its flag on every path. Byte equality of outputs across "
    "processes in general is not decided.")
ASSUMPTIONS = ["std HashMap/HashSet use RandomState: iteration order differs between processes"]

CRATES = ("isograph_schema", "artifact_content", "graphql_network_protocol", "isograph_compiler", "isograph_lang_types",
          "common_lang_types", "isograph_config")
UN = r"(HashMap|HashSet|DashMap|DashSet|IndexMap|IndexSet)"

# reviewed sites: function-id suffix -> (verdict, reason)
REVIEWED = {
    "isograph_database::IsographDatabase::<TCompilationProfile>::remove_iso_literals_from_path":
        ("ok", "selects the set of sources to remove; removal commutes"),
    "memoized::client_declaration_access::client_selectable_declaration_map_from_iso_literals":
        ("FINDING", "first declaration wins and the other one is reported: which of two duplicate declarations is "
                    "reported depends on the hash order of the file map"),
    "memoized::entrypoint_access::entrypoint_declarations": ("ok", "re-keyed by (entity, selectable) in validated_entrypoints"),
    "memoized::selectable_access::selectables_for_entity": ("ok", "consumers look selectables up by name or feed sorted diagnostics"),
    "memoized::selectable_access::selectables": ("ok", "consumers look selectables up by name or feed sorted diagnostics"),
    "validate::validate_entire_schema": ("ok", "diagnostics go into the BTreeSet"),
    "validate::validate_scalar_selectable_directive_sets": ("ok", "diagnostics are re-sorted through the BTreeSet of validate_entire_schema"),
    "validate_selection_sets::validate_selection_sets": ("ok", "diagnostics are re-sorted through the BTreeSet of validate_entire_schema"),
    "validate_use_of_arguments::validate_use_of_arguments": ("ok", "diagnostics are re-sorted through the BTreeSet of validate_entire_schema"),
    "validated_isograph_schema::isograph_literals::process_iso_literals": ("ok", "errors are re-sorted by validate_entire_schema; the item vectors are discarded by the only caller"),
    "validated_isograph_schema::process_iso_literals::parse_iso_literals": ("ok", "result keyed by file; errors re-sorted by validate_entire_schema"),
    "validated_isograph_schema::process_iso_literals::ParsedIsoLiteralsMap::stats": ("ok", "counts only"),
    "file_system_state::FileSystemState::recreate_all": ("ok", "file-system operations on distinct paths commute; directory creation precedes its files within one iteration"),
    "file_system_state::FileSystemState::diff": ("ok", "file-system operations on distinct paths commute"),
    "generate_artifacts::get_artifact_path_and_content_impl": ("ok", "artifacts are re-keyed by path in FileSystemState; shared caches are keyed BTreeMaps (visiting-order independence of their entries is R14.shared-cache)"),
    "parse_type_system_document::parse_type_system_document": ("ok", "results keyed by entity; only the choice of the first of several fatal directive errors depends on order (not judged)"),
}


def consumer_auto_ok(f, t):
    """order-insensitive consumer recognised automatically"""
    if t.dst is None:
        return None
    # flows into a collect / extend whose target is keyed or hashed, or the collected Vec is sorted
    tainted = {t.dst.local}
    verdict = None
    for _ in range(12):
        grew = False
        for b in f.blocks:
            for s in b.stmts:
                if s.dst is not None and any(p.local in tainted for p in s.reads()) and s.dst.local not in tainted:
                    tainted.add(s.dst.local)
                    grew = True
            c = b.term
            if c.op != "call":
                continue
            if not any(p is not None and p.local in tainted for p in c.arg_places()):
                continue
            name = c.callee or c.declared or ""
            atys = c.j.get("atys", [])
            if re.search(r"Iterator>?::collect$|FromIterator", name + (c.declared or "")):
                dty = f.local_ty(c.dst.local) if c.dst is not None else ""
                if re.search(r"^(std::collections::)?(hash::map::|hash::set::|btree_map::|btree_set::)?(HashMap|HashSet|BTreeMap|BTreeSet)", dty) or \
                        re.search(r"(HashMap|HashSet|BTreeMap|BTreeSet)<", dty.split("<")[0] + "<"):
                    return "collected into a keyed container"
                if c.dst is not None and c.dst.local not in tainted:
                    tainted.add(c.dst.local)
                    grew = True
                continue
            if re.search(r"Extend<.*>>?::extend$|::extend$", name) and atys and re.search(r"(HashMap|HashSet|BTreeMap|BTreeSet)<", atys[0]):
                if op_place(c.args[0]) is not None and op_place(c.args[0]).local not in tainted:
                    return "extends a keyed container"
            if re.search(r"slice::<impl \[T\]>::sort(_by|_by_key|_unstable|_unstable_by|_unstable_by_key)?$", name):
                return "the collected vector is sorted"
            if re.search(r"Iterator>?::(any|all|count|sum|min|max|min_by_key|max_by_key)$", c.declared or name):
                return "order-insensitive fold"
            if c.dst is not None and c.dst.local not in tainted and re.search(
                    r"Iterator>?::(map|filter|filter_map|flat_map|chain|cloned|copied|into_iter|iter)$|IntoIterator>?::into_iter$|Deref", (c.declared or "") + name):
                tainted.add(c.dst.local)
                grew = True
        if not grew:
            break
    return verdict


def run(cx):
    fb = cx.mir(*CRATES)
    # ---- R14.unordered-escape -------------------------------------------------------------
    sites = []
    for f in fb.fns.values():
        if "::tests::" in f.id or f.is_derive() or f.crate not in CRATES:
            continue
        for t in f.calls():
            name = t.callee or ""
            atys = t.j.get("atys", [])
            if not atys:
                continue
            a0 = atys[0]
            isiter = re.search(r"::(iter|iter_mut|values|values_mut|keys|into_iter|drain|into_values|into_keys|extract_if)$", name) or \
                re.search(r"IntoIterator>?::into_iter$", t.declared or "")
            head = a0.lstrip("&").replace("mut ", "")
            if isiter and re.match(r"(std::collections::|dashmap::|indexmap::)?(hash::map::|hash::set::)?" + UN + "<", head):
                sites.append((f, t, a0))
    cx.floor("R14.unordered-escape iteration sites over hash-ordered containers", len(sites), 30)
    seen = {}
    for f, t, a0 in sites:
        owner = (f.root or f.id)
        suffix = owner.split("::", 1)[1] if "::" in owner else owner
        k = seen.get(suffix, 0)
        seen[suffix] = k + 1
        auto = consumer_auto_ok(f, t)
        key = "%s|%s#%d" % (owner, (t.callee or "").split("::")[-1], k)
        if auto:
            cx.ob("R14.unordered-escape", key, True, "unordered iteration with an order-insensitive consumer: " + auto,
                  f.loc(t.line))
            continue
        rv = REVIEWED.get(suffix)
        if rv is None:
            cx.ob("R14.unordered-escape", key, False,
                  "iteration over %s whose consumer is not recognised as order-insensitive and that is not in the "
                  "reviewed table: the result may depend on the per-process hash seed" % a0[:60], f.loc(t.line))
        elif rv[0] == "FINDING":
            cx.ob("R14.unordered-escape", key, False, rv[1], f.loc(t.line))
        else:
            cx.ob("R14.unordered-escape", key, True, "reviewed: " + rv[1], f.loc(t.line), nontrivial=False)

    # ---- R14.no-early-exit: a loop over a hash-ordered container runs to the end ----------------------------------
    # (leaving it early - break, return, `?` - makes WHICH elements were processed depend on the hash seed: a cap on
    #  the number of diagnostics, or "the first error", then differs from run to run even if the results are sorted)
    nloops = 0
    for f, t, a0 in sites:
        if t.dst is None:
            continue
        nx = [c for c in f.calls() if re.search(r"Iterator>?::next$", c.declared or c.callee or "") and op_place(c.args[0]) is not None
              and local_flows_from(f, op_place(c.args[0]).local, lambda d: d is t, 8) is not None]
        for N in nx:
            sw = switch_on_call_result(f, N)
            if sw is None or "Some" not in sw["arms"] or "None" not in sw["arms"]:
                continue
            nloops += 1
            p = path_without(f, sw["arms"]["Some"], [sw["arms"]["None"]] + f.return_blocks(), [N.bb])
            owner = (f.root or f.id)
            k = sum(1 for f2, t2, _ in sites if (f2.root or f2.id) == owner and (t2.bb < t.bb))
            cx.ob("R14.no-early-exit", "%s|loop-over-%s#%d" % (owner, (t.callee or "").split("::")[-1], k), p is None,
                  "the loop over %s can be left before the container is exhausted (%s): which elements were processed - "
                  "the diagnostics that survive a cap, the first error that is returned - depends on the per-process "
                  "hash seed" % (a0[:50], fmt_path(f, p)[:120] if p else ""), f.loc(N.line))
    cx.floor("R14.no-early-exit loops over hash-ordered containers", nloops, 5)
    # ---- R14.sorted-diagnostics ----------------------------------------------------------------
    root = fb.one(r"^isograph_schema::validate::validate_entire_schema$")
    n = 0
    for g in [x for x in fb.fns.values() if x.id.startswith(root.id + "::{closure")]:
        for t in g.calls():
            if not term_calls(t, r"Postfix::wrap_err$"):
                continue
            if "Vec<" not in " ".join(t.j.get("atys", [])):
                continue
            n += 1
            a = op_place(t.args[0])
            pr = samesrc.producer(g, a.local)
            ok = False
            why = str(pr[:3])
            # the vector is (through into_iter / collect adapters only) the BTreeSet created in this function
            if pr[0] == "call" and re.search(r"BTreeSet::<T>::new$|BTreeSet::<T, A>::new", pr[2]):
                ok = True
            elif pr[0] == "call" and pr[2] in fb.fns:
                # a private helper that turns the set into the vector: its result must come from its BTreeSet
                # parameter by order-preserving adapters, and the argument must be the set created here
                h = fb.fns[pr[2]]
                hp = samesrc.producer(h, 0)
                call = g.blocks[pr[1]].term
                if hp[0] == "param" and "BTreeSet<" in h.local_ty(hp[1]) and op_place(call.args[hp[1] - 1]) is not None:
                    pr2 = samesrc.producer(g, op_place(call.args[hp[1] - 1]).local)
                    if pr2[0] == "call" and re.search(r"BTreeSet::<T>::new$|BTreeSet::<T, A>::new", pr2[2]):
                        ok = True
                        pr = pr2
            why = "it derives from %s" % (pr[2].split("::")[-2:] if pr[0] == "call" else pr[:2],)
            cx.ob("R14.sorted-diagnostics", "%s|err#%d" % (root.id, n), ok,
                  "the diagnostics returned by validate_entire_schema are not collected from the sorted, de-duplicated "
                  "BTreeSet alone (%s): their order follows per-process hash order" % why, g.loc(t.line))
    cx.floor("R14.sorted-diagnostics error returns", n, 2)

    # ---- R14.ordered-ir ----------------------------------------------------------------------------
    def reachable_types(start_ty, depth=6):
        seen_, work = set(), [start_ty]
        out = []
        while work and depth > 0:
            nxt = []
            for ty in work:
                if ty in seen_:
                    continue
                seen_.add(ty)
                out.append(ty)
                for name in set(re.findall(r"[A-Za-z_][A-Za-z0-9_:]*", ty)):
                    base = name.split("::")[-1]
                    for k, a in fb.adts.items():
                        if k.split("::")[-1] == base and k.startswith("isograph_schema"):
                            for v in a["variants"]:
                                for fld in v["fields"]:
                                    nxt.append(fld["ty"])
                    for k, al in fb.aliases.items():
                        if k.split("::")[-1] == base:
                            nxt.append(al["ty"])
            work = nxt
            depth -= 1
        return out
    for alias in ("MergedSelectionMap", "RefetchedPathsMap"):
        al = [a for k, a in fb.aliases.items() if k.endswith("::" + alias)]
        if not al:
            raise AnchorError("type alias %s not found" % alias)
        tys = reachable_types(al[0]["ty"])
        bad = [t for t in tys if re.search(r"\b(HashMap|HashSet|IndexMap|IndexSet|DashMap)<", t)]
        cx.ob("R14.ordered-ir", alias + "|no-hash-ordered-container", not bad and al[0]["ty"].startswith("std::collections::BTreeMap<"),
              "the merged IR %s (or a type reachable from it) uses a hash-ordered container: printing it iterates in "
              "per-process order (%s)" % (alias, bad[:2]), "crates/isograph_schema/src/create_merged_selection_set.rs")
    # ---- R14.shared-cache --------------------------------------------------------------------------------
    loadable_flag_rule(cx, fb, "R14.shared-cache")
