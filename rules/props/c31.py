"""C31 — Diagnostic excerpts underline exactly the reported span."""
import re
from rulelib import *
from units import Units, BYTE, CHAR, UTF16
from factbase import AnchorError, op_place, op_const

TITLE = "Diagnostic excerpts underline exactly the reported span"
TECHNIQUE = "unit inference (byte / char / utf16) over MIR with unit-typed sinks (caret loops, column number, slice indices)"
EXPLANATION = (
    "A flow-insensitive unit inference over the MIR of text_with_carats assigns byte / char / utf16 units to integer "
    "locals from their sources (str::len, Span.start/.end -> byte; chars().count() -> char; ...) through + - min "
    "max casts. Sinks carry an expected unit: the trip count of every loop that pushes one display character per "
    "iteration into the caret line must be counted in chars (one caret per character), string slice bounds must be "
    "bytes, and no arithmetic mixes units. Line selection and absence of slicing panics for spans that are not on "
    "character boundaries are not decided.")
ASSUMPTIONS = ["spans handed to text_with_carats are byte offsets (they come from the lexer)"]


def push_loops(fn):
    """(range aggregate stmt, push call) for every `for _ in a..b` loop whose body pushes into a String"""
    out = []
    for s in fn.stmts():
        if not (s.rv == "aggregate" and s.j.get("agg") == "adt" and s.j["adt"].endswith("ops::Range")):
            continue
        # the range is itself the iterator of a `for` loop: Range -> IntoIterator::into_iter -> next(&mut it)
        def moved_from(l, root):
            for _ in range(6):
                if l == root:
                    return True
                ds = [d for d in local_defs(fn, l) if hasattr(d, "rv") and d.rv in ("use", "ref")]
                if len(ds) != 1:
                    return False
                q = ds[0].reads()
                if not q or [x for x in q[0].proj if x != "*"]:
                    return False
                l = q[0].local
            return l == root
        into = [c for c in fn.calls() if term_calls(c, r"IntoIterator>?::into_iter$") and op_place(c.args[0]) is not None
                and moved_from(op_place(c.args[0]).local, s.dst.local)]
        if len(into) != 1 or into[0].dst is None:
            continue
        it_local = into[0].dst.local
        nxts = [c for c in fn.calls() if term_calls(c, r"Iterator>?::next$") and op_place(c.args[0]) is not None
                and moved_from(op_place(c.args[0]).local, it_local)]
        if len(nxts) != 1:
            # `for` moves the iterator into a fresh binding first
            cand = [d.dst.local for d in fn.stmts() if d.rv == "use" and d.dst is not None and not d.dst.proj
                    and op_place(d.ops[0]) is not None and op_place(d.ops[0]).local == it_local]
            nxts = [c for c in fn.calls() if term_calls(c, r"Iterator>?::next$") and op_place(c.args[0]) is not None
                    and any(moved_from(op_place(c.args[0]).local, x) for x in cand)]
        if len(nxts) != 1:
            continue
        nxt = nxts[0]
        sw = switch_on_call_result(fn, nxt)
        if sw is None or "Some" not in sw["arms"]:
            continue
        body = reachable_from(fn, sw["arms"]["Some"], stop_blocks=[nxt.bb])
        pushes = [fn.blocks[b].term for b in body if blk_calls(fn.blocks[b], r"string::String::(push|push_str)$")]
        if pushes:
            out.append((s, pushes[0]))
    return out


def run(cx):
    fb = cx.mir("common_lang_types")
    f = fb.one(r"text_with_carats::text_with_carats_and_line_count_buffer_and_line_numbers$")
    u = Units(fb, f)
    loops = push_loops(f)
    # the width of a piece of the caret line is either a `for _ in 0..n { push }` loop or a str::repeat(n)
    sinks = [(rng, list(rng.ops), rng.line) for rng, push in loops]
    for t in f.calls():
        if term_calls(t, r"core::str::<impl str>::repeat$|alloc::str::<impl str>::repeat$|<impl str>::repeat$|iter::repeat_n$|iter::repeat_with$"):
            sinks.append((t, [t.args[1]], t.line))
    sinks.sort(key=lambda x: x[2])
    cx.floor("R31.units caret-line widths (push loops / repeat counts)", len(sinks), 3)
    for i, (rng, cnt_ops, line) in enumerate(sinks):
        units = set()
        for o in cnt_ops:
            units |= u.op_units(o)
            pl = op_place(o)
            if pl is not None:
                units |= u._field_source(pl)
        cx.ob("R31.units", "%s|caret-loop#%d-counts-chars" % (f.id, i), bool(units) and units <= {CHAR},
              "the number of spaces/carets pushed onto the caret line is counted in %s, not characters: on a line "
              "with multi-byte characters the carets are not under the span (one caret per byte)" % (
                  "/".join(sorted(units)) or "an unknown unit"), f.loc(line))
    # string slices are indexed with byte offsets
    slices = [t for t in f.calls() if term_calls(t, r"core::str::traits::<impl std::ops::Index<I> for str>::index$")]
    cx.floor("R31.units slices", len(slices), 3)
    for i, t in enumerate(slices):
        rl = op_place(t.args[1])
        units = set()
        for d in local_defs(f, rl.local):
            if hasattr(d, "rv") and d.rv == "aggregate":
                for o in d.ops:
                    units |= u.op_units(o)
        cx.ob("R31.units", "%s|slice#%d-bytes" % (f.id, i), units <= {BYTE},
              "a string is sliced with an index counted in %s" % "/".join(sorted(units)), f.loc(t.line))
    # no mixed-unit arithmetic
    n = 0
    for s in f.stmts():
        if s.rv == "binop" and re.match(r"(Add|Sub|Lt|Le|Gt|Ge|Eq|Ne)", s.j["binop"]):
            a, b = [u.op_units(o) for o in s.ops]
            n += 1
            if a and b:
                cx.ob("R31.units", "%s|arith-L%d" % (f.id, n), bool(a & b) and len(a | b) == 1,
                      "arithmetic/comparison mixes units %s and %s" % (sorted(a), sorted(b)), f.loc(s.line),
                      nontrivial=False)
