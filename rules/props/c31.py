"""C31 — Diagnostic excerpts underline exactly the reported span."""
import re
from rulelib import *
from units import Units, BYTE, CHAR, UTF16
from factbase import AnchorError, op_place, op_const

TITLE = "Diagnostic excerpts underline exactly the reported span"
TECHNIQUE = "unit inference (byte / char / utf16) over MIR with unit-typed sinks (caret loops, column number, slice indices)"
EXPLANATION = (
    "A flow-insensitive unit inference over the MIR of text_with_carats assigns byte / char / utf16 units to integer "
    "locals from their sources (str::len, Span.start/.end -> byte; chars().count() -> char; ...) through + - min "
    "max casts. Sinks carry an expected unit: the trip count of every loop that pushes one display character per "
    "iteration into the caret line must be counted in chars (one caret per character), string slice bounds must be "
    "bytes, and no arithmetic mixes units. Line selection and absence of slicing panics for spans that are not on "
    "character boundaries are not decided.")
ASSUMPTIONS = ["spans handed to text_with_carats are byte offsets (they come from the lexer)"]


def push_loops(fn):
    """(range aggregate stmt, push call) for every `for _ in a..b` loop whose body pushes into a String"""
    out = []
    for s in fn.stmts():
        if not (s.rv == "aggregate" and s.j.get("agg") == "adt" and s.j["adt"].endswith("ops::Range")):
            continue
        # the range is itself the iterator of a `for` loop: Range -> IntoIterator::into_iter -> next(&mut it)
        def moved_from(l, root):
            for _ in range(6):
                if l == root:
                    return True
                ds = [d for d in local_defs(fn, l) if hasattr(d, "rv") and d.rv in ("use", "ref")]
                if len(ds) != 1:
                    return False
                q = ds[0].reads()
                if not q or [x for x in q[0].proj if x != "*"]:
                    return False
                l = q[0].local
            return l == root
        into = [c for c in fn.calls() if term_calls(c, r"IntoIterator>?::into_iter$") and op_place(c.args[0]) is not None
                and moved_from(op_place(c.args[0]).local, s.dst.local)]
        if len(into) != 1 or into[0].dst is None:
            continue
        it_local = into[0].dst.local
        nxts = [c for c in fn.calls() if term_calls(c, r"Iterator>?::next$") and op_place(c.args[0]) is not None
                and moved_from(op_place(c.args[0]).local, it_local)]
        if len(nxts) != 1:
            # `for` moves the iterator into a fresh binding first
            cand = [d.dst.local for d in fn.stmts() if d.rv == "use" and d.dst is not None and not d.dst.proj
                    and op_place(d.ops[0]) is not None and op_place(d.ops[0]).local == it_local]
            nxts = [c for c in fn.calls() if term_calls(c, r"Iterator>?::next$") and op_place(c.args[0]) is not None
                    and any(moved_from(op_place(c.args[0]).local, x) for x in cand)]
        if len(nxts) != 1:
            continue
        nxt = nxts[0]
        sw = switch_on_call_result(fn, nxt)
        if sw is None or "Some" not in sw["arms"]:
            continue
        body = reachable_from(fn, sw["arms"]["Some"], stop_blocks=[nxt.bb])
        pushes = [fn.blocks[b].term for b in body if blk_calls(fn.blocks[b], r"string::String::(push|push_str)$")]
        if pushes:
            out.append((s, pushes[0]))
    return out


def run(cx):
    fb = cx.mir("common_lang_types")
    f = fb.one(r"text_with_carats::text_with_carats_and_line_count_buffer_and_line_numbers$")
    u = Units(fb, f)
    # the caret line may be built in the function itself or in private helpers only it calls
    fam = [g for g in cone_fns(fb, owner_cone(fb, [f.id], crates={"common_lang_types"})) if not g.root]
    sinks = []
    for g in fam:
        ug = u if g is f else Units(fb, g)
        for rng, push in push_loops(g):
            sinks.append((g, ug, list(rng.ops), rng.line))
        for t in g.calls():
            if term_calls(t, r"core::str::<impl str>::repeat$|alloc::str::<impl str>::repeat$|<impl str>::repeat$|iter::repeat_n$|iter::repeat_with$"):
                sinks.append((g, ug, [t.args[1]], t.line))
    sinks.sort(key=lambda x: (x[0].id, x[3]))
    cx.floor("R31.units caret-line widths (push loops / repeat counts)", len(sinks), 3)
    for i, (g, ug, cnt_ops, line) in enumerate(sinks):
        units = set()
        for o in cnt_ops:
            units |= ug.op_units(o)
            pl = op_place(o)
            if pl is not None:
                units |= ug._field_source(pl)
        cx.ob("R31.units", "%s|caret-loop#%d-counts-chars" % (f.id, i), bool(units) and units <= {CHAR},
              "the number of spaces/carets pushed onto the caret line is counted in %s, not characters: on a line "
              "with multi-byte characters the carets are not under the span (one caret per byte)" % (
                  "/".join(sorted(units)) or "an unknown unit"), g.loc(line))
    # string slices are indexed with byte offsets
    slices = [t for t in f.calls() if term_calls(t, r"core::str::traits::<impl std::ops::Index<I> for str>::index$")]
    cx.floor("R31.units slices", len(slices), 3)
    for i, t in enumerate(slices):
        rl = op_place(t.args[1])
        units = set()
        for d in local_defs(f, rl.local):
            if hasattr(d, "rv") and d.rv == "aggregate":
                for o in d.ops:
                    units |= u.op_units(o)
        cx.ob("R31.units", "%s|slice#%d-bytes" % (f.id, i), units <= {BYTE},
              "a string is sliced with an index counted in %s" % "/".join(sorted(units)), f.loc(t.line))
    # no mixed-unit arithmetic
    n = 0
    for s in f.stmts():
        if s.rv == "binop" and re.match(r"(Add|Sub|Lt|Le|Gt|Ge|Eq|Ne)", s.j["binop"]):
            a, b = [u.op_units(o) for o in s.ops]
            n += 1
            if a and b:
                cx.ob("R31.units", "%s|arith-L%d" % (f.id, n), bool(a & b) and len(a | b) == 1,
                      "arithmetic/comparison mixes units %s and %s" % (sorted(a), sorted(b)), f.loc(s.line),
                      nontrivial=False)
    # ---- R31.offset-accounting: the running byte offset advances by the length of the split piece itself -------
    cur = {i for i in range(len(f.j["locals"])) if f.local_name(i) == "cur_index"}
    if not cur:
        raise AnchorError("running offset `cur_index` not found")
    splits = [t for t in f.calls() if term_calls(t, r"core::str::<impl str>::(split|split_terminator|split_inclusive|lines)$")]
    if len(splits) != 1:
        raise AnchorError("expected one split of the file text into lines")
    sep = op_const(splits[0].args[1]) if len(splits[0].args) > 1 else None
    sep_len = len(sep["v"].encode()) if sep and sep.get("ty") == "char" and isinstance(sep.get("v"), str) else None
    lens = []
    for t in f.calls():
        if term_calls(t, r"core::str::<impl str>::len$") and t.dst is not None:
            # does this length reach cur_index?
            for st in f.stmts():
                if st.dst is not None and st.dst.local in cur and not st.dst.proj and st.rv != "use" or \
                        (st.dst is not None and st.dst.local in cur and not st.dst.proj and st.ops and op_place(st.ops[0]) is not None):
                    if local_flows_from(f, op_place(st.ops[0]).local if st.ops and op_place(st.ops[0]) is not None else -1,
                                        lambda d: d is t, 8) is not None:
                        lens.append(t)
                        break
    cx.floor("R31.offset-accounting lengths added to the running offset", len(lens), 1)

    def origin(l, depth=0):
        if depth > 8:
            return ("deep",)
        ds = local_defs(f, l)
        if len(ds) != 1:
            return ("multi",)
        d = ds[0]
        if hasattr(d, "rv"):
            if d.rv in ("use", "ref", "copy_for_deref"):
                pl = d.place if d.place is not None else (op_place(d.ops[0]) if d.ops else None)
                if pl is None:
                    return ("const",)
                if any(x.startswith("@Some") for x in pl.proj):
                    prod = [x for x in local_defs(f, pl.local) if not hasattr(x, "rv")]
                    if prod and re.search(r"Iterator>?::next$", prod[0].declared or prod[0].callee or ""):
                        return ("iter-item", " ".join(prod[0].j.get("atys", [])))
                return origin(pl.local, depth + 1)
            return ("stmt", d.rv)
        return ("call", (d.callee or d.declared or "?"))

    for i, t in enumerate(lens):
        o = origin(op_place(t.args[0]).local)
        ok = o[0] == "iter-item" and re.search(r"Split|Lines", o[1]) is not None
        cx.ob("R31.offset-accounting", "%s|cur_index-advances-by-split-piece#%d" % (f.name, i), ok,
              "cur_index (the byte offset of the start of each line, compared with the span's byte offsets) is advanced "
              "by the length of %s rather than of the piece produced by split: every later line's offsets drift and the "
              "carets land under the wrong characters" % (o,), f.loc(t.line))
    # the constant added per line is the byte length of the separator
    adds = [st for st in f.stmts() if st.rv == "binop" and st.j["binop"].startswith("Add") and any(
        op_place(o) is not None and any(op_place(o).local == t.dst.local for t in lens) for o in st.ops)]
    for st in adds:
        cs = [op_const(o) for o in st.ops if op_const(o)]
        cx.ob("R31.offset-accounting", "%s|separator-length" % f.name, bool(cs) and sep_len is not None and str(cs[0].get("v")) == str(sep_len),
              "the per-line increment must be the piece length plus the byte length of the separator (%s)" % sep_len, f.loc(st.line))

