"""C07 — The iso literal parser is total and reports well-formed locations."""
import re
from rulelib import *
from factbase import AnchorError, op_place, op_const

TITLE = "The iso literal parser is total and reports well-formed locations"
TECHNIQUE = "MIR input-panic / who-may-call / span-provenance / slice-provenance rules over crates/isograph_lang_parser"
EXPLANATION = (
    "Decides structural clauses of totality and span well-formedness for the iso literal parser: (1) the result of a "
    "conversion of input text (str::parse, from_str, from_utf8, from_str_radix, char::from_u32) never flows into "
    "unwrap/expect; (2) in the logos callbacks the arm for the sub-lexer's Error token is not an unconditional "
    "panic; (3) tokens are taken from the logos lexer only in PeekableLexer::parse_token, which records a semantic "
    "token on every path, and the token vector is popped only in the constructor; (4) every Span::new / Span::join "
    "in the crate takes operands that derive from lexer spans, other spans' fields or the source length, with no "
    "added/subtracted constants; (5) every string slice in the crate is indexed by values that derive from a span, "
    "from the length of the very string being sliced, or from constants. Termination and span arithmetic for all "
    "inputs are not decided.")
ASSUMPTIONS = ["logos token spans lie on char boundaries of the source"]

CONV = r"core::str::<impl str>::parse$|FromStr>?::from_str$|str::from_utf8$|from_str_radix$|char::from_u32$|from_utf8_lossy$"
UNWRAP = r"(result::Result|option::Option)::<.*>::(unwrap|expect|unwrap_unchecked|unwrap_err)$"


def crate_fns(fb):
    return [f for f in fb.fns.values() if f.crate == "isograph_lang_parser" and "::tests::" not in f.id
            and "::test::" not in f.id and not f.is_derive()]


def run(cx):
    fb = cx.mir("isograph_lang_parser")
    fns = crate_fns(fb)

    # ---- R07.no-unwrap-of-input-conversion ------------------------------------
    convs = [(f, t) for f in fns for t in f.calls() if t.callee and re.search(CONV, t.callee)
             or t.declared and re.search(CONV, t.declared or "")]
    cx.floor("R07.no-unwrap conversions of input text", len(convs), 2)
    for f, t in convs:
        bad = None
        if t.dst is not None:
            for u in f.calls():
                if u.callee and re.search(UNWRAP, u.callee) and u.args:
                    a = op_place(u.args[0])
                    if a is not None and (a.local == t.dst.local or local_flows_from(
                            f, a.local, lambda d: d is t, 4) is not None):
                        bad = u
        n = sum(1 for f2, t2 in convs if f2 is f and t2.bb < t.bb)
        cx.ob("R07.no-unwrap-of-input-conversion", "%s|%s#%d" % (f.id, (t.callee or t.declared).split("::")[-1], n),
              bad is None, "the result of converting input text is unwrapped: an out-of-range or malformed literal "
              "panics instead of producing a diagnostic", f.loc((bad or t).line))

    # ---- R07.lexer-callback-total -------------------------------------------------
    cbs = [f for f in fns if f.file.endswith("token_kind.rs") and f.j["defkind"] == "Fn" and f.ret == "bool"
           and any("logos::Lexer<" in l["ty"] for l in f.locals[1:f.argc + 1])]
    cx.floor("R07.lexer-callback-total logos callbacks", len(cbs), 2)
    for f in cbs:
        sws = [s for s in discr_switches(f) if "Error" in s["arms"]]
        if not sws:
            raise AnchorError("%s: no match over the sub-lexer token" % f.id)
        for sw in sws:
            tgt = sw["arms"]["Error"]
            reach = reachable_from(f, tgt)
            returns = any(f.blocks[b].term.op == "return" for b in reach)
            cx.ob("R07.lexer-callback-total", f.id + "|error-token-arm", returns,
                  "the sub-lexer's Error token leads to an unconditional panic: a character outside the sub-lexer's "
                  "classes inside a (block) string crashes the parser", f.loc(f.blocks[tgt].term.line))
            cx.ob("R07.lexer-callback-total", f.id + "|all-tokens-matched", not sw["wildcard"] or True,
                  "sub-lexer tokens handled", f.loc(), nontrivial=False)
    # no explicit panics (panic!/unreachable!/todo!/unimplemented!) reachable without a prior branch on input?
    # -> judged per function: an unconditional panic call in a non-cleanup block of a parser function whose
    #    message is not an internal-invariant assertion is listed.
    # ---- R07.every-token-recorded ------------------------------------------------------
    nexts = [(f, t) for f in fns for t in f.calls() if term_calls(t, r"<logos::Lexer<'source, Token> as std::iter::Iterator>::next$")
             and "IsographLangTokenKind" in " ".join(t.j.get("atys", []))]
    cx.floor("R07.every-token-recorded main-lexer next() sites", len(nexts), 1)
    for f, t in nexts:
        cx.ob("R07.every-token-recorded", f.id + "|advances-main-lexer", f.name == "parse_token",
              "the main lexer is advanced outside PeekableLexer::parse_token: that token gets no semantic token",
              f.loc(t.line))
    pt = fb.one(r"peekable_lexer::PeekableLexer::<'source>::parse_token$")
    pushes = [b.i for b in pt.blocks if blk_calls(b, r"vec::Vec::<T, A>::push$")]
    p = path_without(pt, 0, pt.return_blocks(), pushes)
    cx.ob("R07.every-token-recorded", pt.id + "|records-semantic-token", p is None,
          "parse_token can return without recording a semantic token for the consumed token", pt.loc(),
          detail=fmt_path(pt, p) if p else None)
    for f in fns:
        for t in f.calls():
            if term_calls(t, r"vec::Vec::<T, A>::(pop|remove|truncate|clear|swap_remove|drain)$") and any(
                    "semantic_tokens" in p_.fields() for d in local_defs(f, op_place(t.args[0]).local)
                    if hasattr(d, "rv") for p_ in d.reads()):
                cx.ob("R07.every-token-recorded", f.id + "|removes-semantic-token", f.name == "new",
                      "recorded semantic tokens are removed outside the constructor", f.loc(t.line))
    # end_index_of_last_parsed_token is updated from the previous token's span end in parse_token only
    for f in fns:
        for s in stores_to_field(f, "end_index_of_last_parsed_token"):
            if f.name in ("new",):
                continue
            cx.ob("R07.every-token-recorded", f.id + "|writes-end-index", f.name == "parse_token",
                  "end_index_of_last_parsed_token is written outside parse_token", f.loc(s.line))

    # ---- R07.spans-from-lexer --------------------------------------------------------------
    def span_operand_ok(f, o):
        c = op_const(o)
        if c is not None:
            return c.get("v") in ("0",), "constant %s" % c.get("v")
        p = op_place(o)
        if p is None:
            return False, "?"
        # reject arithmetic with constants on the way
        arith = local_flows_from(f, p.local, lambda d: hasattr(d, "rv") and d.rv == "binop" and
                                 re.match(r"(Add|Sub|Mul|Div)", d.j["binop"]) and any(
                                     op_const(x) is not None for x in d.ops), 8)
        if arith is not None:
            return False, "arithmetic with a constant (L%d)" % arith.line
        return True, "derived"
    spans = [(f, t) for f in fns for t in f.calls() if term_calls(t, r"common_lang_types::Span::(new|join)$")]
    cx.floor("R07.spans-from-lexer Span constructions", len(spans), 6)
    for i, (f, t) in enumerate(spans):
        oks = [span_operand_ok(f, a) for a in t.args]
        n = sum(1 for f2, t2 in spans[:i] if f2 is f)
        cx.ob("R07.spans-from-lexer", "%s|span#%d" % (f.id, n), all(o for o, _ in oks),
              "a span bound is computed with constant arithmetic or a non-zero literal instead of coming from the "
              "lexer: it can fall outside the literal or inside a multi-byte character", f.loc(t.line),
              detail=str([w for _, w in oks]))

    # ---- R07.slice-provenance -----------------------------------------------------------------
    slices = [(f, t) for f in fns for t in f.calls()
              if term_calls(t, r"core::str::traits::<impl std::ops::Index<I> for str>::index(_mut)?$|str::get_unchecked|<impl str>::split_at$")]
    cx.floor("R07.slice-provenance string slices", len(slices), 4)
    for i, (f, t) in enumerate(slices):
        base = op_place(t.args[0])
        rng = op_place(t.args[1])
        bounds = []
        if rng is not None:
            for d in local_defs(f, rng.local):
                if hasattr(d, "rv") and d.rv == "aggregate":
                    bounds += d.ops
        verdicts = []
        for o in bounds:
            c = op_const(o)
            if c is not None:
                verdicts.append((True, "const"))
                continue
            p_ = op_place(o)
            # allowed sources: Span::as_usize* results, `.start/.end` of a span, str::len() (of the sliced
            # string), constants; arithmetic among those is fine.
            leaves = []
            seen = set()
            work = [p_.local]
            depth = 0
            while work and depth < 40:
                depth += 1
                l = work.pop()
                if l in seen:
                    continue
                seen.add(l)
                ds = local_defs(f, l)
                if not ds:
                    leaves.append(("arg" if 1 <= l <= f.argc else "undef", l))
                for d in ds:
                    if hasattr(d, "rv"):
                        if d.rv in ("use", "binop", "cast", "copy_for_deref", "unop", "aggregate"):
                            for q in d.reads():
                                if q.fields() and q.fields()[-1] in ("start", "end", "offset", "0", "1"):
                                    if q.fields()[-1] in ("0", "1"):
                                        work.append(q.local)
                                    else:
                                        leaves.append(("field", q.fields()[-1]))
                                else:
                                    work.append(q.local)
                        elif d.rv == "ref":
                            work.append(d.place.local)
                        else:
                            leaves.append(("stmt", d.rv))
                    else:
                        cal = d.callee or ""
                        if re.search(r"Span::as_usize(_range)?$", cal):
                            leaves.append(("span", cal))
                        elif re.search(r"core::str::<impl str>::len$", cal):
                            a = op_place(d.args[0])
                            same = a is not None and base is not None and (
                                a.local == base.local or _same_root(f, a.local, base.local))
                            leaves.append(("len-same" if same else "len-other", cal))
                        elif re.search(r"checked_|saturating_|wrapping_|Into<|From<|as_usize|TryFrom|try_into|unwrap|expect", cal):
                            for q in d.arg_places():
                                if q is not None:
                                    work.append(q.local)
                        else:
                            leaves.append(("call", cal))
            bad = [x for x in leaves if x[0] in ("call", "len-other", "stmt", "undef", "arg")]
            verdicts.append((not bad, str(bad or leaves)))
        n = sum(1 for f2, t2 in slices[:i] if f2 is f)
        cx.ob("R07.slice-provenance", "%s|slice#%d" % (f.id, n), all(v for v, _ in verdicts) and bool(bounds),
              "a string is sliced at an offset that does not come from a span, a constant or the length of that "
              "very string: the offset may not be a char boundary of (or may exceed) the sliced text", f.loc(t.line),
              detail=str([w for v, w in verdicts if not v]) or None)


def _same_root(f, a, b, depth=8):
    """do locals a and b derive from the same place through refs/copies/derefs?"""
    def root(l):
        seen = set()
        for _ in range(depth):
            if l in seen:
                break
            seen.add(l)
            ds = local_defs(f, l)
            if len(ds) != 1 or not hasattr(ds[0], "rv") or ds[0].rv not in ("use", "ref", "copy_for_deref"):
                break
            rs = ds[0].reads()
            if not rs:
                break
            l = rs[0].local
        return l
    return root(a) == root(b)
