"""C20 — Watch mode produces what a fresh batch compile would."""
import re
from rulelib import *
from factbase import AnchorError, op_place, op_const

TITLE = "Watch mode produces what a fresh batch compile would"
TECHNIQUE = "sibling rule on the two source-ingestion paths (MIR call graph), component-wise prefix rule, coroutine-MIR survival rule, exhaustive event matches"
EXPLANATION = (
    "The initial scan and the watcher's incremental updates are two implementations of 'which files are sources'. "
    "Decided: every function that inserts an iso-literal source read from a file reaches the same source predicate "
    "(extension in ts/tsx/js/jsx, not under __isograph) before inserting; removing a folder selects the sources to "
    "drop by path components (Path::starts_with), never by a character prefix; a folder rename removes the old "
    "folder's sources before reading the new one (with prefix-related names the other order drops what was just "
    "read); update_sources matches every kind of changed file and each handler every kind of event without "
    "wildcard; a rewritten file always replaces its previous source (insert_iso_literal stores unconditionally); in "
    "the watch loop an error from update_sources either ends the watch or, if the loop goes on, does not reach the "
    "compile step with a partly updated database. Equivalence with a fresh compile for all histories is not decided.")
ASSUMPTIONS = ["notify events are categorised by categorize_changed_file_and_filter_changes_in_artifact_directory"]


def run(cx):
    fb = cx.mir("isograph_compiler", "isograph_schema")
    comp = [f for f in fb.fns.values() if f.crate == "isograph_compiler" and "::tests::" not in f.id]
    # ---- R20.same-filter -------------------------------------------------------------------
    pred = [f for f in comp if f.file.endswith("read_files.rs") and any(term_calls(t, r"path::Path::extension$") for g in fb.with_closures(f) for t in g.calls())]
    inserters = [f for f in comp if any(term_calls(t, r"IsographDatabase::<TCompilationProfile>::insert_iso_literal$") for t in f.calls())]
    cx.floor("R20.same-filter functions inserting iso literal sources", len(inserters), 2)
    for f in inserters:
        ins = [t for t in f.calls() if term_calls(t, r"insert_iso_literal$")]
        ok = True
        why = ""
        for t in ins:
            # every path to the insert passes a call that reaches Path::extension (the source predicate) and a check
            # for the artifact folder
            ev = [b.i for b in f.blocks if b.term.op == "call" and (
                term_calls(b.term, r"path::Path::extension$") or
                (b.term.callee in fb.fns and fb.reaches(fb.fns[b.term.callee], r"path::Path::extension$", depth=3)))]
            p = path_without(f, 0, [t.bb], ev)
            if p is not None:
                ok = False
                why = fmt_path(f, p)
        cx.ob("R20.same-filter", f.id + "|source-predicate-before-insert", ok,
              "a file is inserted as an iso-literal source without passing the source predicate of the initial scan "
              "(extension ts/tsx/js/jsx, not under __isograph): watch mode compiles files that a fresh compile ignores",
              f.loc(), detail=why or None)
    # the predicate tests both the extension and the artifact folder
    lits = set()
    for f in comp:
        if f.file.endswith("read_files.rs"):
            for g in fb.with_closures(f):
                for s in g.stmts():
                    for o in s.ops:
                        c = op_const(o)
                        if c and "str" in c:
                            lits.add(c["str"])
                for t in g.calls():
                    for o in t.args:
                        c = op_const(o)
                        if c and "str" in c:
                            lits.add(c["str"])
    # literals may also live in a const table of the module (`const EXTENSIONS: [&str; 4] = [...]`)
    for c in cx.syn()["consts"]:
        if c["file"].endswith("isograph_compiler/src/read_files.rs"):
            lits |= set(re.findall(r'"([^"\\]*)"', c.get("expr", "")))
    cx.ob("R20.same-filter", "read_files|predicate-table", {"ts", "tsx", "js", "jsx", "__isograph"} <= lits,
          "the source predicate no longer tests the four extensions and the __isograph folder (found %s)" % sorted(x for x in lits if len(x) < 12),
          "crates/isograph_compiler/src/read_files.rs")
    # ---- R20.component-prefix --------------------------------------------------------------------
    rm = fb.one(r"IsographDatabase::<TCompilationProfile>::remove_iso_literals_from_path$")
    calls = [t for g in fb.with_closures(rm) for t in g.calls()]
    str_prefix = [t for t in calls if re.search(r"core::str::<impl str>::(starts_with|contains|find)$", t.callee or "")]
    path_prefix = [t for t in calls if re.search(r"path::Path::starts_with$", t.callee or "")]
    cx.ob("R20.component-prefix", rm.id + "|component-wise", bool(path_prefix) and not str_prefix,
          "sources under a removed folder are selected by a character prefix: removing `src/a` also removes the "
          "sources of `src/ab`", rm.loc())
    # (not judged) the order of "remove old folder / read new folder" on a folder rename: with component-wise
    # matching a renamed folder can never be a path-prefix of its old name, so either order gives the same result
    # (a seeded change that swapped the order stopped being observable once the prefix defect was repaired).
    # ---- R20.all-kinds-handled ---------------------------------------------------------------------
    us = fb.one(r"source_files::update_sources$")
    n = 0
    for g in fb.with_closures(us):
        for sw in discr_switches(g):
            if (sw["adt"] or "").endswith("ChangedFileKind"):
                n += 1
                cx.ob("R20.all-kinds-handled", us.id + "|ChangedFileKind", not sw["wildcard"],
                      "update_sources handles changed-file kinds %s through a wildcard" % sw["wildcard"], g.loc())
    cx.floor("R20.all-kinds-handled ChangedFileKind matches", n, 1)
    for h in comp:
        if re.search(r"source_files::handle_update_", h.id) and h.j["defkind"] == "Fn":
            for sw in discr_switches(h):
                if (sw["adt"] or "").endswith("SourceEventKind"):
                    cx.ob("R20.all-kinds-handled", h.id + "|SourceEventKind", not sw["wildcard"] and len(sw["arms"]) >= 3,
                          "a handler covers event kinds %s through a wildcard" % sw["wildcard"], h.loc())
    # ---- R20.rewrite-replaces ------------------------------------------------------------------------
    ii = fb.one(r"IsographDatabase::<TCompilationProfile>::insert_iso_literal$")
    st = blocks_calling(ii, r"Database>?::set$|Storage::<Db>::set$")
    mp = blocks_calling(ii, r"HashMap::<K, V, S, A>::insert$|HashMap::<K, V, S>::insert$")
    p1 = path_without(ii, 0, ii.return_blocks(), st)
    p2 = path_without(ii, 0, ii.return_blocks(), mp)
    cx.ob("R20.rewrite-replaces", ii.id + "|stores-on-every-path", bool(st) and bool(mp) and p1 is None and p2 is None,
          "insert_iso_literal can return without storing the new content: a file rewritten so that it no longer looks "
          "like a source keeps its old literals in watch mode", ii.loc(), detail=fmt_path(ii, p1 or p2) if (p1 or p2) else None)
    watch_rule(cx, fb, "R20.watch-survives")


def watch_rule(cx, fb, rule):
    w = fb.one(r"watch::handle_watch_command::\{closure#0\}$")
    usc = [t for t in w.calls() if term_calls(t, r"source_files::update_sources$")]
    cmp_ = [b.i for b in w.blocks if blk_calls(b, r"with_duration::WithDuration::<T>::new$|batch_compile::compile$")]
    if len(usc) != 1:
        raise AnchorError("watch loop: expected one update_sources call")
    ok_t, err_t = result_branch(w, usc[0])
    # from the error continuation: either the coroutine completes (setdiscr Returned) without compiling, or ... it
    # must not reach the compile step (closure construction for WithDuration::new) with a partly updated database
    reach = set()
    work = [err_t]
    completes = False
    compiles = False
    while work:
        b = work.pop()
        if b in reach:
            continue
        reach.add(b)
        blk = w.blocks[b]
        if any(s.rv == "setdiscr" for s in blk.stmts):
            if any(s.rv == "setdiscr" and s.j.get("variant") == 1 for s in blk.stmts):
                completes = True
            continue
        if any(s.rv == "aggregate" and s.j.get("agg") == "closure" and "handle_watch_command" in s.j.get("def", "") for s in blk.stmts) and b != err_t:
            compiles = True
        work += blk.term.succs()
    cx.ob(rule, w.id + "|no-compile-after-failed-update", not compiles,
          "after update_sources reported an error the loop goes on to compile: the database is only partly updated "
          "(the events of a batch are applied independently), so artifacts are written for a state that is not the "
          "state of the files", w.loc(usc[0].line))
    cx.extra["watch_error_continuation"] = "ends the watch (coroutine completes)" if completes else "continues"
