"""Tables read from the iso literal parser's MIR."""
import re
from rulelib import *
from factbase import op_place, op_const


def token_legend_pairs(fb):
    """{(token kind variant, legend const name)} from the constants passed at every parse_token* call site"""
    pairs = set()
    for f in fb.fns.values():
        if f.crate != "isograph_lang_parser" or "::tests::" in f.id:
            continue
        for t in f.calls():
            if not term_calls(t, r"PeekableLexer::<'source>::(parse_token_of_kind|parse_source_of_kind|parse_string_key_type|parse_token)$"):
                continue
            ks, sts = [], []
            for a in t.args:
                c = op_const(a)
                if c and c.get("variant"):
                    ks.append(c["variant"])
                if c and c.get("uneval"):
                    sts.append(c["uneval"].split("::")[-1])
                p = op_place(a)
                if p is not None:
                    for d in local_defs(f, p.local):
                        if hasattr(d, "rv") and d.rv == "aggregate" and "TokenKind" in d.j.get("adt", ""):
                            ks.append(d.j["variant"])
                        if hasattr(d, "rv") and d.rv == "use":
                            c2 = op_const(d.ops[0])
                            if c2 and c2.get("uneval"):
                                sts.append(c2["uneval"].split("::")[-1])
                            if c2 and c2.get("variant"):
                                ks.append(c2["variant"])
            if ks and sts:
                pairs.add((ks[0], sts[0]))
    return pairs
