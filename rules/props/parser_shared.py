"""Tables read from the iso literal parser's MIR."""
import re
from rulelib import *
from factbase import op_place, op_const


def token_legend_pairs(fb):
    """{(token kind variant, legend const name)} from the constants passed at every parse_token* call site"""
    pairs = set()
    for f in fb.fns.values():
        if f.crate != "isograph_lang_parser" or "::tests::" in f.id:
            continue
        for t in f.calls():
            if not term_calls(t, r"PeekableLexer::<'source>::(parse_token_of_kind|parse_source_of_kind|parse_string_key_type|parse_token)$"):
                continue
            ks, sts = [], []
            for a in t.args:
                c = op_const(a)
                if c and c.get("variant"):
                    ks.append(c["variant"])
                if c and c.get("uneval"):
                    sts.append(c["uneval"].split("::")[-1])
                p = op_place(a)
                if p is not None:
                    for d in local_defs(f, p.local):
                        if hasattr(d, "rv") and d.rv == "aggregate" and "TokenKind" in d.j.get("adt", ""):
                            ks.append(d.j["variant"])
                        if hasattr(d, "rv") and d.rv == "use":
                            c2 = op_const(d.ops[0])
                            if c2 and c2.get("uneval"):
                                sts.append(c2["uneval"].split("::")[-1])
                            if c2 and c2.get("variant"):
                                ks.append(c2["variant"])
            if ks and sts:
                pairs.add((ks[0], sts[0]))
    return pairs


TOKEN_CALL = r"PeekableLexer::<'source>::(parse_token_of_kind|parse_source_of_kind|parse_string_key_type|parse_token)$"


def call_pair(f, t):
    """(token kind, legend const) passed at one parse_token* call site, or None"""
    ks, sts = [], []
    for a in t.args:
        c = op_const(a)
        if c and c.get("variant"):
            ks.append(c["variant"])
        if c and c.get("uneval"):
            sts.append(c["uneval"].split("::")[-1])
        p = op_place(a)
        if p is not None:
            for d in local_defs(f, p.local):
                if hasattr(d, "rv") and d.rv == "aggregate" and "TokenKind" in d.j.get("adt", ""):
                    ks.append(d.j["variant"])
                if hasattr(d, "rv") and d.rv == "use":
                    c2 = op_const(d.ops[0])
                    if c2 and c2.get("uneval"):
                        sts.append(c2["uneval"].split("::")[-1])
                    if c2 and c2.get("variant"):
                        ks.append(c2["variant"])
    return (ks[0] if ks else "?", sts[0] if sts else "?")


def closure_args(fb, f, t):
    """closures of `f` passed (by value or by reference) to call `t`"""
    out = []
    for a in t.args:
        c = op_const(a)
        if c:
            for key in ("uneval", "fn", "ty"):
                v = c.get(key) or ""
                if "{closure" in v:
                    g = fb.fns.get(v) or next((x for x in fb.closures_of(f) if x.id == v or v.endswith(x.id)), None)
                    if g is not None:
                        out.append(g)
        p = op_place(a)
        seen = set()
        while p is not None and p.local not in seen:
            seen.add(p.local)
            nxt = None
            for d in local_defs(f, p.local):
                if hasattr(d, "rv") and d.rv == "aggregate" and d.j.get("agg") == "closure":
                    g = fb.fns.get(d.j["def"])
                    if g is not None:
                        out.append(g)
                elif hasattr(d, "rv") and d.rv in ("ref", "use") and (d.place is not None or d.ops):
                    nxt = d.place or op_place(d.ops[0])
            p = nxt
    return out


def first_tokens(fb, f, nullable, rejected, memo=None, stack=()):
    """FIRST set of parser function `f`: the (kind, legend) pairs of the first token-consuming call on every path
    from its entry. `nullable`: functions that may succeed without consuming a token (the walk continues after them);
    `rejected`: functions whose success only leads to a diagnostic (their tokens never start an accepted item)."""
    memo = {} if memo is None else memo
    if f.id in memo:
        return memo[f.id]
    if f.id in stack:
        return set()
    out = set()
    seen, work = set(), [0]
    while work:
        b = work.pop()
        if b in seen:
            continue
        seen.add(b)
        t = f.blocks[b].term
        cont = True
        if t.op == "call":
            if term_calls(t, TOKEN_CALL):
                out.add(call_pair(f, t))
                cont = False
            else:
                cl = closure_args(fb, f, t)
                g = fb.fns.get(t.callee)
                fn_args = []
                for a in t.args:
                    c = op_const(a)
                    if c and c.get("fn") and c["fn"] in fb.fns and "{closure" not in c["fn"]:
                        fn_args.append(fb.fns[c["fn"]])
                is_parser = g is not None and g.crate == "isograph_lang_parser" and any(
                    "PeekableLexer" in x for x in t.j.get("atys", []))
                if g is not None and g.name in rejected:
                    pass
                elif cl or (fn_args and is_parser and g.name in ("to_control_flow", "from_control_flow")):
                    for c in cl + fn_args:
                        out |= first_tokens(fb, c, nullable, rejected, memo, stack + (f.id,))
                    cont = False
                elif is_parser:
                    sub = first_tokens(fb, g, nullable, rejected, memo, stack + (f.id,))
                    out |= sub
                    cont = (g.name in nullable) or not sub
        if cont:
            for s in t.succs():
                work.append(s)
    memo[f.id] = out
    return out
