"""C26 — Persisted document ids match the documents they name."""
import re
from rulelib import *
from factbase import AnchorError, op_place, op_const
import samesrc, sibling, templates, os
from props.printer_shared import PRINTER_CRATES

TITLE = "Persisted document ids match the documents they name"
TECHNIQUE = "same-source / must-pass-through rules on generate_operation_text (MIR) + whitespace-only rule on Format-selected literals"
EXPLANATION = (
    "In generate_operation_text the text that is hashed and the text stored in the persisted-documents map are the "
    "same value; the hash algorithm operand is the configured one; the id printed into the artifact is the key that "
    "was inserted; every path that prints a PersistedOperation passes through the insertion; the hash function "
    "matches every algorithm variant without wildcard and feeds the data to the digest. In the query printer, every "
    "literal selected by a match on Format (Pretty vs Compact) consists of whitespace / line-continuation characters "
    "only, so the compact text that is hashed denotes the same document as the pretty text. Hash correctness and "
    "the file-name option are not decided.")
ASSUMPTIONS = ["md5 / sha2 crates compute their digests correctly"]


def run(cx):
    fb = cx.mir(*PRINTER_CRATES)
    g = fb.one(r"artifact_content::operation_text::generate_operation_text$")
    hs = [t for t in g.calls() if term_calls(t, r"operation_text::hash$")]
    ins = [t for t in g.calls() if term_calls(t, r"BTreeMap::<K, V, A>::insert$")]
    qt = [t for t in g.calls() if term_calls(t, r"NetworkProtocol::generate_query_text$")]
    if len(hs) != 1 or len(ins) != 1 or len(qt) < 1:
        raise AnchorError("generate_operation_text: expected one hash, one insert, one generate_query_text (%d/%d/%d)" % (len(hs), len(ins), len(qt)))
    # ---- R26.hash-what-you-store -----------------------------------------------------------
    h_arg = op_place(hs[0].args[0])
    v_arg = op_place(ins[0].args[2])
    ph, pv = samesrc.producer(g, h_arg.local), samesrc.producer(g, v_arg.local)
    same = ph[:3] == pv[:3] and ph[0] == "call" and ph[1] in [t.bb for t in qt]
    cx.ob("R26.hash-what-you-store", g.id + "|hashed-text-is-stored-text", same,
          "the text that is hashed (%s) is not the text stored under the id (%s): the id does not name the stored "
          "document" % (ph[:3], pv[:3]), g.loc(hs[0].line))
    k_arg = op_place(ins[0].args[1])
    pk = samesrc.producer(g, k_arg.local)
    cx.ob("R26.hash-what-you-store", g.id + "|key-is-the-hash", local_flows_from(g, k_arg.local, lambda d: d is hs[0], 8) is not None,
          "the key inserted into the persisted documents is not derived from the hash of the text", g.loc(ins[0].line))
    alg = op_place(hs[0].args[1])
    ok = alg is not None and (("algorithm" in alg.fields()) or local_flows_from(g, alg.local, lambda d: hasattr(d, "rv") and any(
        "algorithm" in p.fields() for p in d.reads()), 4) is not None)
    cx.ob("R26.hash-what-you-store", g.id + "|configured-algorithm", bool(ok),
          "the hash is not computed with the configured algorithm (pd.options.algorithm)", g.loc(hs[0].line))
    # the id printed is the inserted key: the placeholder {operation_id} is the same local as the key
    T = templates.Templates(cx.syn(), os.environ.get("VERIF_REPO", "/repo"))
    dt = templates.display_types(fb, g.file)
    printed = []
    for m in T.macros_in(r"operation_text\.rs$", r"generate_operation_text$"):
        for (l, c, name, ctx) in T.placeholders(m)[0]:
            if name == "operation_id" or "OperationId" in (dt.get((l, c)) or ""):
                printed.append((l, c))
    disp = [t for t in g.calls() if term_calls(t, r"fmt::rt::Argument::<'_>::new_display$") and "OperationId" in " ".join(t.j.get("atys", []))]
    ok = bool(printed) and bool(disp) and all(samesrc.same_source(g, op_place(t.args[0]).local, k_arg.local)[0] or
                                              local_flows_from(g, op_place(t.args[0]).local, lambda d: d is hs[0], 10) is not None for t in disp)
    cx.ob("R26.hash-what-you-store", g.id + "|printed-id-is-inserted-key", ok,
          "the operationId written into the artifact is not the key under which the document was stored", g.loc())
    # ---- R26.same-operation: the persisted document is the operation the non-persisted build sends ------
    # (a) generate_operation_text prints exactly the operation it was given
    gq = qt[0]
    want = {1: 5, 2: 2, 3: 3, 4: 4}      # generate_query_text arg index -> generate_operation_text parameter
    for ai, pi in want.items():
        a = op_place(gq.args[ai])
        pr = samesrc.producer(g, a.local) if a is not None else None
        cx.ob("R26.same-operation", g.id + "|query-text-arg%d-is-param%d" % (ai, pi), pr is not None and pr[0] == "param" and pr[1] == pi,
              "the document that is recorded is not printed from the operation passed in (argument %d comes from %s)" % (ai, pr), g.loc(gq.line))
    # (b) every artifact generator passes the same operation to the pretty printer and to generate_operation_text
    callers = [f for f in fb.fns.values() if f.crate == "artifact_content" and any(t.callee == g.id for t in f.calls())]
    cx.floor("R26.same-operation artifact generators recording operations", len(callers), 2)
    for f in callers:
        ops = [t for t in f.calls() if t.callee == g.id]
        qts = [t for t in f.calls() if term_calls(t, r"NetworkProtocol>?::generate_query_text$")]
        if len(ops) != 1 or len(qts) != 1:
            raise AnchorError("%s: expected one generate_query_text and one generate_operation_text call" % f.id)
        o, q = ops[0], qts[0]
        for label, qi, oi in (("selection-map", 3, 2), ("operation-name", 2, 1), ("variables", 4, 3), ("root-entity", 1, 4)):
            qa, oa = op_place(q.args[qi]), op_place(o.args[oi])
            same, why = samesrc.same_source(f, qa.local, oa.local) if qa is not None and oa is not None else (False, "constant")
            cx.ob("R26.same-operation", f.id + "|%s" % label, same,
                  "the %s given to generate_operation_text (whose compact text is hashed and recorded) is not the one given "
                  "to the query text of the non-persisted build: %s" % (label, why), f.loc(o.line))
    # ---- R26.recorded-iff-referenced -----------------------------------------------------------
    po = []
    for b in g.blocks:
        for s in b.stmts:
            for o in s.ops:
                c = op_const(o)
                if c and "str" in c and "PersistedOperation" in c["str"]:
                    po.append(b.i)
    fmt_po = []
    for m in T.macros_in(r"operation_text\.rs$", r"generate_operation_text$"):
        if "PersistedOperation" in (m["template"] or ""):
            fmt_po += [t.bb for t in g.calls() if term_calls(t, r"fmt::format$") and m["span"][0] in (t.line, t.callsite_line, (t.j.get("sp") or [0] * 6)[5])]
    cx.floor("R26.recorded-iff-referenced PersistedOperation print sites", len(fmt_po), 1)
    p = path_without(g, 0, fmt_po, [ins[0].bb])
    cx.ob("R26.recorded-iff-referenced", g.id + "|persisted-operation-implies-insert", p is None,
          "a PersistedOperation can be printed without its document having been recorded", g.loc(),
          detail=fmt_path(g, p) if p else None)
    # hashed text uses the Compact format and the stored one too (same value) - and hash() covers all algorithms
    hf = fb.one(r"artifact_content::operation_text::hash$")
    sws = [s for s in discr_switches(hf) if (s["adt"] or "").endswith("PersistedDocumentsHashAlgorithm")]
    ok = len(sws) == 1 and not sws[0]["wildcard"]
    UPD = r"Update>?::update$|Digest>?::update$"

    def feeds_digest(f_, t, depth=1):
        """does call `t` in `f_` pass the data (parameter 1 of hash) to a digest update, directly or through a helper?"""
        for i, a in enumerate(t.args):
            pl = op_place(a)
            if pl is None or samesrc.producer(f_, pl.local)[:2] != ("param", 1):
                continue
            if re.search(UPD, (t.declared or "") + (t.callee or "")):
                return True
            g_ = fb.fns.get(t.callee)
            if g_ is not None and depth > 0:
                for t2 in g_.calls():
                    if re.search(UPD, (t2.declared or "") + (t2.callee or "")) and len(t2.args) > 1 and op_place(t2.args[1]) is not None \
                            and samesrc.producer(g_, op_place(t2.args[1]).local)[:2] == ("param", i + 1):
                        return True
        return False
    if ok:
        regs = sibling.arm_regions(hf, sws[0])
        for arm, reg in regs.items():
            if not any(hf.blocks[b].term.op == "call" and feeds_digest(hf, hf.blocks[b].term) for b in reg):
                ok = False
    # the id is the hex rendering of the WHOLE digest: hex::encode (or the digest's own LowerHex), never an integer
    # made from the digest bytes (`{:x}` of a u128 drops leading zeros, so 1 id in 16 is not the hash)
    hcone = cone_fns(fb, owner_cone(fb, [hf.id], crates={"artifact_content"}))
    enc = [t for g_ in hcone for t in g_.calls() if re.search(r"^hex::encode$|hex::encode_upper$|base16ct::", t.callee or "")
           or (re.search(r"fmt::rt::Argument::<'_>::new_lower_hex$", t.callee or "") and "GenericArray" in " ".join(t.j.get("atys", [])))]
    ints = [t for g_ in hcone for t in g_.calls() if re.search(r"::from_(be|le|ne)_bytes$|::from_str_radix$", t.callee or "")]
    cx.ob("R26.hash-what-you-store", hf.id + "|id-is-hex-of-whole-digest", bool(enc) and not ints,
          "the id is not produced by hex-encoding the digest bytes (%s): rendering the digest as an integer loses leading "
          "zeros, so some ids are not the configured hash of their document" % (
              [(t.callee or "").split("::")[-1] for t in ints] or "no hex::encode found"), hf.loc())
    cx.ob("R26.hash-what-you-store", hf.id + "|digest-of-the-data", ok,
          "hash() must feed its data argument to the digest of every algorithm variant (no wildcard)", hf.loc())
    # ---- R26.format-is-whitespace ---------------------------------------------------------------------
    n = 0
    for f in fb.fns.values():
        if not f.file.endswith("query_text.rs"):
            continue
        for sw in discr_switches(f):
            if not (sw["adt"] or "").endswith("::Format"):
                continue
            regs = sibling.arm_regions(f, sw)
            for v, reg in regs.items():
                for b in reg:
                    blk = f.blocks[b]
                    lits = [op_const(o) for s in blk.stmts for o in s.ops] + ([op_const(a) for a in blk.term.args] if blk.term.op == "call" else [])
                    for c in lits:
                        if c and ("str" in c or (c.get("ty") == "char" and "v" in c)):
                            n += 1
                            text = c.get("str", c.get("v"))
                            cx.ob("R26.format-is-whitespace", "%s|Format::%s|%r" % (f.id, v, text),
                                  re.fullmatch(r"[ \t\r\n\\]*", text) is not None,
                                  "a literal chosen by the output format (%s) is not pure whitespace: the compact text that "
                                  "is hashed and stored differs from the pretty text in more than layout" % v, f.loc())
    cx.floor("R26.format-is-whitespace Format-selected literals", n, 4)
