"""Rules over the artifact writer shared by C17 / C18 / C19."""
import re
from rulelib import *
from factbase import AnchorError, op_place, op_const

FS_MUT = (r"^std::fs::(write|remove_file|remove_dir_all|remove_dir|create_dir_all|create_dir|rename|copy|"
          r"hard_link|set_permissions)$|^std::fs::File::(create|create_new|options)$|"
          r"^std::fs::OpenOptions::(open|write|append|create|truncate)$|^std::os::unix::fs::symlink$")

COMPILER_CRATES = ("isograph_compiler", "artifact_content", "isograph_schema", "isograph_lsp", "isograph_cli",
                   "isograph_config", "graphql_network_protocol", "isograph_lang_parser", "isograph_lang_types",
                   "common_lang_types", "graphql_schema_parser", "graphql_lang_types", "pico", "prelude")


def non_test(f):
    return "::tests::" not in f.id and "::test::" not in f.id and "/tests/" not in f.file


def fs_mutation_sites(fb):
    out = []
    for f in fb.fns.values():
        if f.crate not in COMPILER_CRATES or not non_test(f):
            continue
        for t in f.calls():
            if t.callee and re.search(FS_MUT, t.callee) or t.declared and re.search(FS_MUT, t.declared):
                out.append(t)
    return out
