"""Rules over the artifact writer shared by C17 / C18 / C19."""
import re
from rulelib import *
from factbase import AnchorError, op_place, op_const

FS_MUT = (r"^std::fs::(write|remove_file|remove_dir_all|remove_dir|create_dir_all|create_dir|rename|copy|"
          r"hard_link|set_permissions)$|^std::fs::File::(create|create_new|options)$|"
          r"^std::fs::OpenOptions::(open|write|append|create|truncate)$|^std::os::unix::fs::symlink$")

COMPILER_CRATES = ("isograph_compiler", "artifact_content", "isograph_schema", "isograph_lsp", "isograph_cli",
                   "isograph_config", "graphql_network_protocol", "isograph_lang_parser", "isograph_lang_types",
                   "common_lang_types", "graphql_schema_parser", "graphql_lang_types", "pico", "prelude")


def non_test(f):
    return "::tests::" not in f.id and "::test::" not in f.id and "/tests/" not in f.file


def fs_mutation_sites(fb):
    out = []
    for f in fb.fns.values():
        if f.crate not in COMPILER_CRATES or not non_test(f):
            continue
        for t in f.calls():
            if t.callee and re.search(FS_MUT, t.callee) or t.declared and re.search(FS_MUT, t.declared):
                out.append(t)
    return out


def write_index_rule(cx, fb, rule):
    """The artifact index carried by a planned WriteFile names an entry of the NEW artifact list (FileSystemState::diff):
    it must not derive from the old state (parameter 1). Shared by C18 (wrong content written) and C08 (an index out
    of range makes apply_file_system_operations panic in the next watch-mode recompile)."""
    from rulelib import aggregates, local_flows_from
    from factbase import op_place
    df = fb.one(r"artifact_content::file_system_state::FileSystemState::diff$")
    dwrites = [a for a in aggregates(df, r"FileSystemOperation$") if a.j["variant"] == "WriteFile"]
    cx.floor(rule + " WriteFile operations planned by diff", len(dwrites), 2)
    for k, w in enumerate(dwrites):
        ip = op_place(w.ops[1]) if len(w.ops) > 1 else None
        from_old = ip is not None and local_flows_from(df, ip.local, lambda d: (hasattr(d, "rv") and any(p_.local == 1 for p_ in d.reads())) or (
            not hasattr(d, "rv") and any(p_ is not None and p_.local == 1 for p_ in d.arg_places())), 10) is not None
        cx.ob(rule, "%s|write#%d-index-from-new-state" % (df.id, k), ip is not None and not from_old,
              "the artifact index of a planned WriteFile derives from the OLD file-system state: the index is applied to "
              "the new artifact list, so another artifact's content is written, or the index is out of range and the "
              "writer panics in the next incremental recompile", df.loc(w.line))
