"""C02 — Memoized functions re-run only when something they read changed."""
import re
from rulelib import *
from factbase import AnchorError, op_place, op_const

TITLE = "Memoized functions re-run only when something they read changed"
TECHNIQUE = "MIR ordering / dataflow rules over pico (equal-write inertness, backdating, short-circuit, max-time fold)"
EXPLANATION = (
    "Path rules over the MIR of crates/pico: on the branch where a source write compares equal nothing of the "
    "SourceNode is stored and the epoch is not advanced; in update_derived_node the equal-value branch stores neither "
    "time_updated nor node_index while the changed branch stores both; create_derived_node stamps max_time_updated; "
    "execute_memoized_function cannot reach the user body on the verified-in-epoch branch nor on the "
    "no-dependency-changed branch; dependencies verified in the current epoch are filtered before recursion; "
    "TrackedDependencies::push folds with max. Necessary conditions of early cutoff; execution counts for a given "
    "history are not decided.")
ASSUMPTIONS = ["MIR at -Zmir-opt-level=0 preserves source control flow",
               "DynEq::dyn_eq / PartialEq::ne return whether values are equal / differ"]

RUN_BODY = (r"execute_memoized_function::(update_derived_node|create_derived_node|invoke_with_dependency_tracking)$")


def non_test(f):
    return "/tests/" not in f.file


def run(cx):
    fb = cx.mir("pico")
    pico = [f for f in fb.fns.values() if f.crate == "pico" and non_test(f)]

    # ---- R02.equal-write-inert ------------------------------------------
    setters = [f for f in pico if aggregates(f, r"^pico::source::SourceNode$")
               and any(term_calls(t, r"DynEq::dyn_eq$") for t in f.calls())]
    indirect = [f for f in pico if not f.root and f not in setters and aggregates(f, r"^pico::source::SourceNode$")
                and any(term_calls(t, r"DynEq::dyn_eq$") for g_ in fb.closures_of(f) for t in g_.calls())]
    cx.floor("R02.equal-write-inert source setters comparing with dyn_eq", len(setters) + len(indirect), 1)
    for f in indirect:
        cx.note("%s compares with dyn_eq inside a closure; the equal-branch analysis is not applied to it" % f.id)
    # ---- R02.absent-agrees-with-read: 'was absent, is it present now?' uses the reader's notion of presence ----------
    gi = [f for f in pico if any(a.j.get("variant") == "AbsentSource" for a in aggregates(f, r"^pico::dependency::NodeKind$"))]
    ver = [(f, s_) for f in pico for s_ in discr_switches(f) if s_["adt"] == "pico::dependency::NodeKind" and "AbsentSource" in s_["arms"]
           and re.search(r"execute_memoized_function", f.file)]
    if gi and ver:
        import sibling
        read_presence = {(t.callee or "") for f in gi for t in f.calls() if t.callee in fb.fns and re.search(r"Option<", fb.fns[t.callee].ret or "")
                         and "source" in (t.callee or "").lower()}
        for f, sw in ver:
            reg = sibling.arm_regions(f, sw).get("AbsentSource", set())
            used = {f.blocks[b].term.callee for b in reg if f.blocks[b].term.op == "call" and f.blocks[b].term.callee in fb.fns}
            cx.ob("R02.absent-agrees-with-read", "%s|presence-test-shared-with-reader" % f.name, bool(used & read_presence) or not used,
                  "the reader decides that a source is absent with %s, but the verification of an AbsentSource dependency asks "
                  "%s: when the two notions differ (e.g. a removed source that keeps its key) a function that saw 'absent' is "
                  "re-executed on every unrelated write" % (sorted(x.split("::")[-1] for x in read_presence), sorted(x.split("::")[-1] for x in used)),
                  f.loc())
    for f in setters:
        for t in f.calls():
            if not term_calls(t, r"DynEq::dyn_eq$"):
                continue
            true_t, false_t = call_bool_branch(f, t)
            eq_region = reachable_from(f, true_t)
            ne_region = reachable_from(f, false_t)
            only_eq = eq_region - ne_region
            bad = []
            for b in sorted(eq_region):
                blk = f.blocks[b]
                for s in blk.stmts:
                    if s.dst is not None and s.dst.proj and "SourceNode" in f.local_ty(s.dst.local) \
                            and "*" in s.dst.proj and b in only_eq:
                        bad.append("store %r at L%d" % (s.dst, s.line))
                if blk_calls(blk, r"Epoch::increment$") and b in only_eq:
                    bad.append("Epoch::increment at L%d" % blk.term.line)
            cx.ob("R02.equal-write-inert", f.id + "|equal-branch-writes", not bad,
                  "writing a source with an equal value modifies the stored node or advances the epoch, so every "
                  "dependent re-executes after an unrelated change", f.loc(t.line), detail="; ".join(bad) or None)
            # and the unequal branch does replace the node
            repl = [a for a in aggregates(f, r"^pico::source::SourceNode$") if a.bb in ne_region - eq_region]
            cx.ob("R02.equal-write-inert", f.id + "|unequal-branch-replaces", bool(repl),
                  "the unequal branch must store the new SourceNode", f.loc(t.line))

    # ---- R02.backdate ----------------------------------------------------
    f = fb.one(r"pico::execute_memoized_function::update_derived_node$")
    ne = [t for t in f.calls() if re.search(r"PartialEq(<.*>)?>?::ne$", t.declared or "") and "DynEq" in " ".join(t.j.get("atys", []))]
    if len(ne) != 1:
        raise AnchorError("update_derived_node: expected exactly one `prev != new` comparison on dyn DynEq, found %d" % len(ne))
    true_t, false_t = call_bool_branch(f, ne[0])
    changed = reachable_from(f, true_t)
    same = reachable_from(f, false_t)
    only_changed, only_same = changed - same, same - changed
    for field in ("time_updated", "node_index"):
        st = stores_to_field(f, field)
        in_same = [s for s in st if s.bb in only_same or (s.bb not in only_changed)]
        in_changed = [s for s in st if s.bb in only_changed]
        cx.ob("R02.backdate", "%s|equal-branch-stores-%s" % (f.id, field), not in_same,
              "when the recomputed value is equal, %s must be left alone (backdating); it is stored outside the "
              "value-changed branch" % field, f.loc(in_same[0].line if in_same else None))
        cx.ob("R02.backdate", "%s|changed-branch-stores-%s" % (f.id, field), bool(in_changed),
              "when the recomputed value differs, %s must be updated" % field, f.loc())
    st = stores_to_field(f, "time_updated")
    for s in st:
        srcs = [p for p in s.reads()]
        ok = any(p.last_field() == "max_time_updated" for p in srcs) or any(
            local_flows_from(f, p.local, lambda d: hasattr(d, "rv") and any(
                q.last_field() == "max_time_updated" for q in d.reads())) for p in srcs)
        cx.ob("R02.backdate", "%s|time_updated-is-max-of-deps" % f.id, ok,
              "time_updated must be the maximum time_updated of the dependencies, not the current epoch",
              f.loc(s.line))
    g = fb.one(r"pico::execute_memoized_function::create_derived_node$")
    ins = [t for t in g.calls() if term_calls(t, r"insert_derived_node_revision$")]
    if len(ins) != 1:
        raise AnchorError("create_derived_node: expected one insert_derived_node_revision call")
    a = op_place(ins[0].args[2])
    ok = a is not None and (a.last_field() == "max_time_updated" or local_flows_from(
        g, a.local, lambda d: hasattr(d, "rv") and any(q.last_field() == "max_time_updated" for q in d.reads())))
    cx.ob("R02.backdate", g.id + "|stamps-max_time_updated", bool(ok),
          "a new derived node's time_updated must be max_time_updated of its dependencies (not the current epoch)",
          g.loc(ins[0].line))

    # ---- R02.deps-refreshed ---------------------------------------------------
    inv = [t for t in f.calls() if term_calls(t, r"invoke_with_dependency_tracking$")]
    if len(inv) != 1:
        raise AnchorError("update_derived_node: expected one invoke_with_dependency_tracking call")
    sw = switch_on_call_result(f, inv[0])
    if sw is None or "Some" not in sw["arms"]:
        raise AnchorError("update_derived_node: result of the re-execution is not matched")
    dep_st = stores_to_field(f, "dependency_index")
    pth = path_without(f, sw["arms"]["Some"], f.return_blocks(), [x.bb for x in dep_st])
    fed = all(local_flows_from(f, q.local, lambda d: not hasattr(d, "rv") and term_calls(d, r"insert_dependencies$"))
              is not None for x in dep_st for q in x.reads()) and bool(dep_st)
    cx.ob("R02.deps-refreshed", f.id + "|new-dependency-list-stored", pth is None and fed,
          "after a re-execution the freshly tracked dependency list (with its current verification epochs) is not "
          "stored on every path: the node keeps stale dependency records and is re-executed (or wrongly reused) on "
          "later verifications", f.loc(), detail=fmt_path(f, pth) if pth else None)

    # ---- R02.time-updated-writers (who may write a revision's time_updated) -------------------
    n_sites = 0
    # calls of a constructor function of the revision count as constructions too
    ctor = [k_ for k_ in pico if k_.impl_for and "DerivedNodeRevision" in k_.impl_for and aggregates(k_, r"^pico::derived_node::DerivedNodeRevision$")]
    n_sites += sum(1 for h in pico for t in h.calls() if any(t.callee == k_.id for k_ in ctor))
    for h in pico:
        # field stores
        for x in stores_to_field(h, "time_updated"):
            base_ty = h.local_ty(x.dst.local) if hasattr(x, "dst") and x.dst is not None else ""
            if "DerivedNodeRevision" not in base_ty and "RefMut" not in base_ty and "revision" not in (h.local_name(x.dst.local) or "") and "rev" != (h.local_name(x.dst.local) or ""):
                continue
            n_sites += 1
            cx.ob("R02.time-updated-writers", h.id + "|field-store", h.id == f.id,
                  "time_updated of an existing derived-node revision is overwritten outside update_derived_node's "
                  "value-changed branch: dependents recorded against the old epoch re-execute although nothing they "
                  "read changed", h.loc(x.line))
        # whole-revision constructions
        for a in aggregates(h, r"^pico::derived_node::DerivedNodeRevision$"):
            if h in ctor:
                continue        # a forwarding constructor: its callers are the construction sites
            n_sites += 1
            role = None
            if h.name == "insert_derived_node_revision":
                role = "creation helper"
            elif "garbage_collection" in h.file:
                role = "gc copy"
            else:
                for sw_ in discr_switches(h):
                    if "Vacant" in sw_["arms"] and "Occupied" in sw_["arms"]:
                        vac = reachable_from(h, sw_["arms"]["Vacant"]) - reachable_from(h, sw_["arms"]["Occupied"])
                        if a.bb in vac:
                            role = "vacant-entry creation"
            cx.ob("R02.time-updated-writers", "%s|revision-built|%s" % (h.id, role or "existing-entry"),
                  role is not None,
                  "a DerivedNodeRevision (with a fresh time_updated) is constructed for an id that already has a "
                  "revision: its time_updated moves although its value did not change, so every dependent "
                  "re-executes", h.loc(a.line))
    cx.floor("R02.time-updated-writers sites writing a revision's time_updated", n_sites, 5)

    # ---- R02.short-circuit -------------------------------------------------
    e = fb.one(r"pico::execute_memoized_function::execute_memoized_function$")
    body_blocks = set(blocks_calling(e, RUN_BODY))
    cx.floor("R02.short-circuit body-running calls in execute_memoized_function", len(body_blocks), 2)
    v = [t for t in e.calls() if term_calls(t, r"node_verified_in_current_epoch$")]
    if len(v) != 1:
        raise AnchorError("execute_memoized_function: expected one node_verified_in_current_epoch call")
    true_t, false_t = call_bool_branch(e, v[0])
    hit = reachable_from(e, true_t) & body_blocks
    cx.ob("R02.short-circuit", e.id + "|verified-in-epoch-reuses", not hit,
          "a node already verified in the current epoch must be reused without running the body",
          e.loc(v[0].line), detail=str(sorted(hit)) if hit else None)
    adc = [t for t in e.calls() if term_calls(t, r"execute_memoized_function::any_dependency_changed$")]
    if len(adc) != 1:
        raise AnchorError("execute_memoized_function: expected one any_dependency_changed call")
    true_t, false_t = call_bool_branch(e, adc[0])
    hit = reachable_from(e, false_t) & body_blocks
    cx.ob("R02.short-circuit", e.id + "|unchanged-deps-reuse", not hit,
          "when no dependency changed the body must not run", e.loc(adc[0].line),
          detail=str(sorted(hit)) if hit else None)
    # the dependency check is only entered when the node exists and is not verified: the body on the
    # `exists` branch runs only after any_dependency_changed returned true
    exists = [t for t in e.calls() if term_calls(t, r"get_derived_node_and_revision$")]
    sw = switch_on_call_result(e, exists[0]) if exists else None
    if sw is None or "Some" not in sw["arms"]:
        raise AnchorError("execute_memoized_function: lookup result not matched")
    upd = set(blocks_calling(e, r"update_derived_node$"))
    p = path_without(e, sw["arms"]["Some"], upd, [adc[0].bb]) if upd else None
    cx.ob("R02.short-circuit", e.id + "|recompute-only-after-dep-check", bool(upd) and p is None,
          "an existing node is recomputed without consulting its dependencies", e.loc(),
          detail=fmt_path(e, p) if p else None)
    # filter of dependencies verified in the current epoch
    a = fb.one(r"pico::execute_memoized_function::any_dependency_changed$")
    filt = [t for t in a.calls() if re.search(r"Iterator::filter$", t.declared or "")]
    cl_ok = False
    for c in fb.closures_of(a):
        reads = set()
        for s in c.stmts():
            for p in s.reads():
                if p.last_field():
                    reads.add(p.last_field())
        if {"time_verified_or_updated", "current_epoch"} <= reads and any(
                re.search(r"PartialEq(<.*>)?>?::ne$", t.declared or "") for t in c.calls()):
            cl_ok = True
    cx.ob("R02.short-circuit", a.id + "|skips-deps-verified-this-epoch", bool(filt) and cl_ok,
          "dependencies already verified in the current epoch must be filtered out before recursing", a.loc())

    # ---- R02.max-time ------------------------------------------------------
    p_ = fb.one(r"pico::dependency::TrackedDependencies::push$")
    st = stores_to_field(p_, "max_time_updated")
    ok = bool(st) and all((not hasattr(s, "rv")) and term_calls(s, r"cmp::max$") or (
        hasattr(s, "rv") and any(local_flows_from(p_, q.local, lambda d: (not hasattr(d, "rv")) and term_calls(d, r"cmp::max$"))
                                 for q in s.reads())) for s in st)
    cx.ob("R02.max-time", p_.id + "|folds-with-max", ok,
          "max_time_updated must be folded with max(time_updated, previous)", p_.loc())
    # value handed to the parent is the node's time_updated / max_time_updated, not the current epoch
    reg = [t for t in e.calls() if term_calls(t, r"register_dependency_in_parent_memoized_fn$")]
    if len(reg) != 1:
        raise AnchorError("execute_memoized_function: expected one registration call")
    bad_reads = []
    for fn_ in (e, f, g):
        for s in fn_.stmts():
            for q in s.reads():
                if q.last_field() == "current_epoch":
                    bad_reads.append((fn_, s))
    # current_epoch may be read for time_verified (create) only: it must not flow into tuple element 1 returned
    flows = False
    for fn_ in (f, g):
        for s in fn_.stmts():
            if s.rv == "aggregate" and s.j.get("agg") == "tuple" and s.dst is not None and s.dst.local == 0:
                q = op_place(s.ops[1])
                if q is not None and q.last_field() != "max_time_updated":
                    d = local_flows_from(fn_, q.local, lambda d: hasattr(d, "rv") and any(
                        r.last_field() == "current_epoch" for r in d.reads()))
                    if d is not None:
                        flows = True
    cx.ob("R02.max-time", e.id + "|parent-gets-node-time", not flows,
          "the epoch reported to the parent for a (re)computed node must be its dependencies' max time_updated",
          e.loc())
