"""C13 — All generated artifacts are syntactically valid and import-closed."""
import os, re
from rulelib import *
from factbase import AnchorError, op_place, op_const
import sibling, samesrc, templates
from props.printer_shared import *
from props import c09

TITLE = "All generated artifacts are syntactically valid and import-closed"
TECHNIQUE = "template taint analysis: syn format templates + lexical-context state machine, joined with MIR operand types; MIR path rules on the artifact set"
EXPLANATION = (
    "Every format!/push_str template of the artifact generators is parsed from source; a quote/comment state machine "
    "over the literal pieces gives the lexical context (code, '...', \"...\", `...`, /* */, //) of each interpolation "
    "in the generated TypeScript, and the MIR call that formats the operand gives its type. Types that carry user "
    "text (string literal bodies, the operation text that embeds them, schema/iso descriptions, the iso literal text, "
    "the configured header) may only be interpolated into contexts where their raw text cannot change the lexical "
    "structure. Also decided: the generated-file header comment is only prepended to TypeScript artifacts (the "
    "artifact set contains .json files), unquoted property names / aliases have identifier alphabets (shared with "
    "C09/C12), persisted documents are serialised with serde_json, and a client field selected @loadable anywhere "
    "always gets its loadable artifacts (the flag is set on every path), so that readers' imports resolve. That every "
    "artifact parses is not decided beyond these clauses.")
ASSUMPTIONS = ["no sanitising function exists for these types (a wrapper changes the operand's type and is then not tainted)"]


def loadable_flag_rule(cx, fb, rule):
    f = fb.one(r"isograph_schema::create_merged_selection_set::merge_client_scalar_field$")
    sws = [s for s in discr_switches(f) if "Some" in s["arms"] and "Loadability" in (s["adt"] or "") or
           (s["adt"] or "").endswith("Loadability")]
    stores = stores_to_field(f, "was_ever_selected_loadably")
    st_true = [s for s in stores if hasattr(s, "rv") and s.ops and (op_const(s.ops[0]) or {}).get("v") is True]
    cx.floor(rule + " stores of was_ever_selected_loadably", len(st_true), 1)
    # the arm that handles a loadable selection: the one from which the store is reachable
    arm = None
    for sw in discr_switches(f):
        for v, tgt in sw["arms"].items():
            if "Loadabl" in v and any(s.bb in reachable_from(f, tgt) for s in st_true):
                arm = tgt
    if arm is None:
        raise AnchorError("merge_client_scalar_field: loadable arm not found")
    p = path_without(f, arm, f.return_blocks(), [s.bb for s in st_true])
    cx.ob(rule, f.id + "|loadable-selection-always-sets-flag", p is None,
          "a field selected @loadable can leave was_ever_selected_loadably unset (e.g. when the field was encountered "
          "before through a plain selection): its entrypoint / refetch_reader artifacts are then not generated although "
          "readers import them, and whether they are generated depends on traversal order", f.loc(),
          detail=fmt_path(f, p) if p else None)


def run(cx):
    fb = cx.mir(*PRINTER_CRATES)
    # ---- R13.string-context (format templates) ---------------------------------------------------
    pl, T = placements(cx, fb, r"crates/artifact_content/src/|crates/graphql_network_protocol/src/")
    cx.floor("R13.string-context template interpolations examined", len(pl), 300)
    n_t = 0
    for (m, l, c, name, ctx, ty) in pl:
        cx.count()
        k = tainted_type(ty)
        if k is None:
            continue
        n_t += 1
        if k == "StringLiteralValue" and "query_text.rs" in m["file"]:
            continue  # GraphQL text, judged by C09
        cx.ob("R13.string-context", "%s|%s-in-%s|%s" % (m["file"].split("/")[-1], k, ctx, m["in"].split("::")[-1]),
              ctx not in DANGEROUS[k],
              "%s (user-controlled text) is interpolated into a %s context of a generated file without escaping: its "
              "raw text can end the string/comment and change the structure of the artifact" % (k, ctx),
              "%s:%d" % (m["file"], l))
    cx.floor("R13.string-context interpolations of user-text types", n_t, 4)
    # ---- straight-line push_str builders --------------------------------------------------------------
    bp = builder_placements(cx, fb, r"crates/artifact_content/src/")
    nb = 0
    for (file, fn_, line, ctx, ty, text) in bp:
        k = tainted_type(ty or "")
        if k is None:
            continue
        nb += 1
        cx.ob("R13.string-context", "%s|%s-in-%s|%s" % (file.split("/")[-1], k, ctx, fn_.split("::")[-1]),
              ctx not in DANGEROUS[k],
              "%s is pushed into a %s context of a generated file without escaping (a `*/` in a description closes "
              "the doc comment; the rest of the description becomes code)" % (k, ctx), "%s:%d" % (file, line))
    cx.floor("R13.string-context builder pushes of user-text types", nb, 1)

    # ---- R13.header-only-on-ts ----------------------------------------------------------------------------
    g = fb.one(r"artifact_content::generate_artifacts::get_artifact_path_and_content$")
    json_names = sorted({c_["str"] for f_ in fb.fns.values() if f_.crate == "artifact_content" for s in f_.stmts()
                         for o in s.ops for c_ in [op_const(o)] if c_ and "str" in c_ and c_["str"].endswith(".json")} |
                        {c_["str"] for f_ in fb.fns.values() if f_.crate == "artifact_content" for t in f_.calls()
                         for o in t.args for c_ in [op_const(o)] if c_ and "str" in c_ and c_["str"].endswith(".json")})
    hdr = [m for m in T.macros_in(r"generate_artifacts\.rs$", r"get_artifact_path_and_content$") if (m["template"] or "").startswith("// ")]
    if not hdr:
        raise AnchorError("header template not found in get_artifact_path_and_content")
    # is the prepend guarded by a test on the file name / extension?
    fmt_blocks = [b.i for b in g.blocks if blk_calls(b, r"fmt::format$")]
    guards = [t for t in g.calls() if re.search(r"ends_with$|extension$|strip_suffix$|PartialEq.*::(eq|ne)$", t.callee or t.declared or "")
              and any(g.dominates(t.bb, b) for b in fmt_blocks)]
    # an artifact whose file name comes from the configuration (persisted_documents.file) cannot be recognised by
    # comparing with a fixed list of names: the guard has to look at the extension / suffix
    dyn_names = [f_ for f_ in fb.fns.values() if f_.crate == "artifact_content" and not f_.root and aggregates(f_, r"ArtifactPath$")
                 and any(hasattr(d, "rv") and any("file" in p_.fields() for p_ in d.reads()) for d in f_.stmts())
                 and any(re.search(r"Option::<T>::(map|unwrap_or|map_or|unwrap_or_else)$", t.callee or "") for t in f_.calls())]
    by_suffix = [t for t in guards if re.search(r"ends_with$|extension$|strip_suffix$", t.callee or t.declared or "")]
    cx.ob("R13.header-only-on-ts", g.id + "|json-recognised-by-suffix", bool(by_suffix) or not dyn_names or not json_names,
          "JSON artifacts are recognised by comparing the file name with fixed names, but %s takes its file name from the "
          "configuration: with a custom persisted-documents file name the header comment is written into a JSON file" % (
              [f_.name for f_ in dyn_names]), g.loc(hdr[0]["span"][0]))
    cx.ob("R13.header-only-on-ts", g.id + "|header-guarded-by-file-type", bool(guards) or not json_names,
          "the `// header` comment is prepended to every artifact, but the artifact set contains %s: those files are "
          "no longer valid JSON" % json_names, g.loc(hdr[0]["span"][0]))
    # the header value is validated to be a single line where the newtype is built
    co = fb.one(r"isograph_config::compilation_options::create_options$")
    lines_call = [t for t in co.calls() if re.search(r"<impl str>::lines$", t.callee or "")]
    cx.ob("R13.header-validated", co.id + "|single-line-check", bool(lines_call) and any(
        re.search(r"panicking|panic_fmt|Diagnostic", t.callee or "") for t in co.calls()),
        "generated_file_header must be rejected when it spans several lines (it is written after `// `)", co.loc())

    # ---- R13.json ---------------------------------------------------------------------------------------------
    pd = [f_ for f_ in fb.fns.values() if f_.file.endswith("persisted_documents.rs") and f_.name == "path_and_content"]
    ok = bool(pd) and any(re.search(r"serde_json::(ser::)?to_string(_pretty)?$", t.callee or "") for t in pd[0].calls())
    cx.ob("R13.json", "persisted_documents|serialised-by-serde_json", ok,
          "persisted_documents.json must be produced by serde_json (not hand-built)", pd[0].loc() if pd else "")

    # ---- R13.loadable-artifacts ----------------------------------------------------------------------------------
    loadable_flag_rule(cx, fb, "R13.loadable-artifacts")

    # ---- R13.identifier-context: aliases used as unquoted property names -------------------------------------------
    c09.rule_alias_alphabet(cx, fb, prop="R13.identifier-context")
