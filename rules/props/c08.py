"""C08 — The compiler never crashes on any project."""
import re, sys
from rulelib import *
from factbase import AnchorError, op_place, op_const
import samesrc

TITLE = "The compiler never crashes on any project"
TECHNIQUE = "call-graph SCC rule for reference recursion (visited-set insert must dominate the descent), flow rule for unwrapped conversions of file-system names, must-pass-through rule for reporting in the watch loop (MIR)"
EXPLANATION = (
    "Only input-dependent crash classes whose truth is visible in the shape of the code are decided; the several "
    "hundred `expect(\"... indicative of a bug in Isograph\")` sites guard internal invariants and are out of reach. "
    "(1) R08.input-conversion: in isograph_compiler (the crate that ingests the project from the file system) the "
    "result of a conversion that fails depending on the bytes of external data (Path::to_str, OsStr::to_str, "
    "OsString::into_string, from_utf8, str::parse) never flows into unwrap / expect. (2) R08.ref-recursion: in the "
    "merge traversal, the strongly connected component of the call graph that descends into the selection set of "
    "ANOTHER declaration obtained by name (…_selection_set_for_parent_query) must cut reference cycles: the function "
    "that consults the encountered-fields map must insert into it before descending (insert dominates the recursive "
    "call on the absent branch); recursion along the syntax tree of one literal is bounded by input size and exempt. "
    "Other reference-recursive traversals (refetched_paths_with_path) run after the merge traversal on the same "
    "declarations and are reported as notes. (3) R08.watch-reports: in the watch loop every compile is followed by "
    "print_result before the loop waits for the next event. Stack depth for deep acyclic programs, arithmetic "
    "overflow and every other panic site are not decided.")
ASSUMPTIONS = ["entry points are compile_and_print / handle_watch_command", "trait-object calls are not followed"]

CONV = (r"path::Path::to_str$|ffi::OsStr::to_str$|ffi::os_str::OsStr::to_str$|OsString::into_string$|"
        r"core::str::<impl str>::parse$|str::from_utf8$|String::from_utf8$|str::converts::from_utf8$")
PANICS = r"(option::Option|result::Result)::<.*>::(unwrap|expect|unwrap_unchecked|unwrap_err|expect_err)$"
SELSET_LOOKUP = r"selection_set_for_parent_query$|selectable_reader_selection_set$"


def sccs_of(fb, crates):
    sys.setrecursionlimit(20000)
    owner = lambda f: f.root or f.id
    edges = {}
    for f in fb.fns.values():
        if f.crate not in crates or "::tests::" in f.id or "::test::" in f.id:
            continue
        o = owner(f)
        for t in f.calls():
            c = t.callee
            if c in fb.fns and fb.fns[c].crate in crates:
                edges.setdefault(o, set()).add(owner(fb.fns[c]))
    idx, low, st, on, out, i = {}, {}, [], set(), [], [0]

    def sc(v):
        idx[v] = low[v] = i[0]
        i[0] += 1
        st.append(v)
        on.add(v)
        for w in edges.get(v, ()):
            if w not in idx:
                sc(w)
                low[v] = min(low[v], low[w])
            elif w in on:
                low[v] = min(low[v], idx[w])
        if low[v] == idx[v]:
            comp = []
            while True:
                w = st.pop()
                on.discard(w)
                comp.append(w)
                if w == v:
                    break
            if len(comp) > 1 or v in edges.get(v, ()):
                out.append(sorted(comp))
    for v in sorted(edges):
        if v not in idx:
            sc(v)
    return out, edges


def run(cx):
    # ---- R08.input-conversion -----------------------------------------------------------------------------
    fb = cx.mir("isograph_compiler")
    comp = [f for f in fb.fns.values() if f.crate == "isograph_compiler" and "::tests::" not in f.id]
    convs = [(f, t) for f in comp for t in f.calls() if re.search(CONV, (t.callee or "") + "|" + (t.declared or ""))]
    cx.floor("R08.input-conversion conversions of external bytes / names examined", len(convs), 4)
    for f in comp:
        for t in f.calls():
            if not re.search(PANICS, t.callee or "") or not t.args:
                continue
            a = op_place(t.args[0])
            if a is None:
                continue
            src = local_flows_from(f, a.local, lambda d: not hasattr(d, "rv") and re.search(CONV, (d.callee or "") + "|" + (d.declared or "")), 6)
            if src is None:
                cx.count()
                continue
            k = sum(1 for t2 in f.calls() if re.search(PANICS, t2.callee or "") and t2.bb < t.bb)
            name = (f.name or (fb.fns[f.root].name + "::closure" if f.root and f.root in fb.fns else f.id))
            cx.ob("R08.input-conversion", "%s|%s-unwrapped#%d" % (name, (src.callee or src.declared).split("::")[-1], k), False,
                  "the result of %s (which fails depending on the bytes of a file name / file content) is unwrapped: a "
                  "project containing such a file makes the compiler panic instead of reporting a diagnostic" % (
                      (src.callee or src.declared).split("::")[-1]), f.loc(t.line))
    for f, t in convs:
        cx.ob("R08.input-conversion", "%s|%s@handled" % (f.name or f.id.split("::")[-2], (t.callee or t.declared).split("::")[-1]), True, "", f.loc(t.line),
              nontrivial=False)
    # ---- R08.ref-recursion -----------------------------------------------------------------------------------
    sb = cx.mir("isograph_schema", "artifact_content")
    sccs, edges = sccs_of(sb, {"isograph_schema", "artifact_content"})
    byowner = {}
    for f in sb.fns.values():
        byowner.setdefault(f.root or f.id, []).append(f)
    ref_sccs = []
    for comp_ in sccs:
        cs = set(comp_)
        ref_edges = []
        for o in comp_:
            for g in byowner.get(o, []):
                for t in g.calls():
                    if t.callee in sb.fns and (sb.fns[t.callee].root or t.callee) in cs:
                        for a in t.arg_places():
                            if a is None:
                                continue
                            hit = local_flows_from(g, a.local, lambda d: not hasattr(d, "rv") and re.search(SELSET_LOOKUP, d.callee or d.declared or ""), 8)
                            if hit is not None:
                                ref_edges.append((g, t))
                                break
        if ref_edges:
            ref_sccs.append((comp_, ref_edges))
    cx.floor("R08.ref-recursion call-graph components descending into another declaration's selection set", len(ref_sccs), 2)
    cx.extra["reference_recursive_components"] = [[x.split("::")[-1] for x in c] for c, _ in ref_sccs]
    merge = [(c, e) for c, e in ref_sccs if any(x.endswith("create_merged_selection_set::merge_non_loadable_client_type") for x in c)]
    if len(merge) != 1:
        raise AnchorError("merge traversal component (merge_non_loadable_client_type) not found among the reference-recursive components")
    comp_, ref_edges = merge[0]
    cs = set(comp_)
    # guard functions: consult a map, and on the absent branch insert before any descent
    guards = []
    for o in comp_:
        for g in byowner.get(o, []):
            gets = [t for t in g.calls() if re.search(r"(BTreeMap|HashMap|HashSet|BTreeSet)::<.*>::(get|get_mut|contains_key|contains|entry)$", t.callee or "")]
            inss = [t for t in g.calls() if re.search(r"(BTreeMap|HashMap|HashSet|BTreeSet)::<.*>::insert$", t.callee or "")]
            desc = [t for t in g.calls() if t.callee in sb.fns and (sb.fns[t.callee].root or t.callee) in cs]
            def coll(t):
                a = op_place(t.args[0]) if t.args else None
                return samesrc.producer(g, a.local)[:2] if a is not None else None
            shared = {coll(t) for t in gets} & {coll(t) for t in inss}
            shared.discard(None)
            if shared and desc:
                guards.append((g, gets, [t for t in inss if coll(t) in shared], desc))
    cx.floor("R08.ref-recursion functions consulting an encountered-fields map in the merge component", len(guards), 1)
    for g, gets, inss, desc in guards:
        for k, d in enumerate(desc):
            before = any(g.dominates(i_.bb, d.bb) and i_.bb != d.bb for i_ in inss)
            cx.ob("R08.ref-recursion", "%s|insert-before-descent#%d" % (g.name, k), before,
                  "%s looks the field up in the encountered-fields map, and when it is absent descends into the field's "
                  "selection set (%s) BEFORE inserting it: two client fields that select each other are never found in "
                  "the map, the descent does not end and the process overflows its stack" % (
                      g.name, (d.callee or "?").split("::")[-1]), g.loc(d.line))
    # every cycle through a reference edge passes a guard function
    gset = {g.root or g.id for g, *_ in guards}
    for g, t in ref_edges:
        src, dst = g.root or g.id, sb.fns[t.callee].root or t.callee
        # can dst reach src without passing a guard?
        seen, work = set(), [dst]
        free = False
        while work:
            v = work.pop()
            if v in seen or v in gset:
                continue
            seen.add(v)
            if v == src:
                free = True
                break
            work += [w for w in edges.get(v, ()) if w in cs]
        cx.ob("R08.ref-recursion", "%s->%s|cycle-passes-encountered-map" % (src.split("::")[-1], dst.split("::")[-1]),
              not free or dst in gset or src in gset,
              "a cycle through the by-name descent %s -> %s does not pass the function that consults the "
              "encountered-fields map" % (src.split("::")[-1], dst.split("::")[-1]), g.loc(t.line))
    for c, e in ref_sccs:
        if c is not comp_:
            cx.note("reference-recursive traversal without its own cycle cut (relies on the merge traversal running first "
                    "on the same declarations): %s" % [x.split("::")[-1] for x in c])
    # ---- R08.watch-reports ------------------------------------------------------------------------------------
    w = fb.one(r"watch::handle_watch_command::\{closure#0\}$")
    compiles = blocks_calling(w, r"with_duration::WithDuration::<T>::new$")
    prints = blocks_calling(w, r"batch_compile::print_result$")
    waits = blocks_calling(w, r"mpsc::.*Receiver::<T>::recv$|Receiver<T>>?::recv$")
    cx.floor("R08.watch-reports compile steps in the watch loop", len(compiles), 2)
    ends = [b.i for b in w.blocks if any(s.rv == "setdiscr" for s in b.stmts)] + waits
    for k, b in enumerate(sorted(compiles)):
        p = path_without(w, b, [e for e in ends if e != b], prints)
        cx.ob("R08.watch-reports", "handle_watch_command|compile#%d-followed-by-print_result" % k, p is None,
              "after a compile the loop can wait for the next event (or end) without print_result: neither artifacts "
              "nor diagnostics are reported for that recompile; path %s" % fmt_path(w, p), w.loc(w.blocks[b].term.line))
