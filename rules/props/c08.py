"""C08 — The compiler never crashes on any project."""
import re, sys
from rulelib import *
from factbase import AnchorError, op_place, op_const
import samesrc

TITLE = "The compiler never crashes on any project"
TECHNIQUE = "call-graph SCC rules for reference / type-graph recursion (visited-set insert must dominate the descent; name-only parameters on a cycle), flow rule for unwrapped conversions of file-system names, must-pass-through rules for the selection loops and for reporting in the watch loop, provenance rule for artifact indices (MIR)"
EXPLANATION = (
    "Only input-dependent crash classes whose truth is visible in the shape of the code are decided; the several "
    "hundred `expect(\"... indicative of a bug in Isograph\")` sites guard internal invariants and are out of reach. "
    "(1) R08.input-conversion: in isograph_compiler (the crate that ingests the project from the file system) the "
    "result of a conversion that fails depending on the bytes of external data (Path::to_str, OsStr::to_str, "
    "OsString::into_string, from_utf8, str::parse) never flows into unwrap / expect. (2) R08.ref-recursion: in the "
    "merge traversal, the strongly connected component of the call graph that descends into the selection set of "
    "ANOTHER declaration obtained by name (…_selection_set_for_parent_query) must cut reference cycles: the function "
    "that consults the encountered-fields map must insert into it before descending (insert dominates the recursive "
    "call on the absent branch); recursion along the syntax tree of one literal is bounded by input size and exempt. "
    "Other reference-recursive traversals (refetched_paths_with_path) run after the merge traversal on the same "
    "declarations and are reported as notes. R08.type-recursion: a function that lies on a call cycle (trait methods "
    "of workspace traits linked to their impls) and whose parameters are only the database, names and scalars can only "
    "be recursing over things it looks up by name - the schema's type graph, which may be cyclic - and cannot carry a "
    "visited set: such a cycle does not terminate for a self-referential type. R08.validation-complete (shared with "
    "C16): every iteration of a loop over selections reaches the dispatch on the kind of selection (no `continue` that "
    "lets a selection escape validation / merging; later passes `expect` validated data). R08.index-provenance (shared "
    "with C18): the artifact index of a planned WriteFile comes from the new state, never from the old one (an old "
    "index is out of range after the artifact list shrinks and the writer panics). (3) R08.watch-reports: in the watch loop every compile is followed by "
    "print_result before the loop waits for the next event. Stack depth for deep acyclic programs, arithmetic "
    "overflow and every other panic site are not decided.")
ASSUMPTIONS = ["entry points are compile_and_print / handle_watch_command", "trait-object calls are not followed"]

CONV = (r"path::Path::to_str$|ffi::OsStr::to_str$|ffi::os_str::OsStr::to_str$|OsString::into_string$|"
        r"core::str::<impl str>::parse$|str::from_utf8$|String::from_utf8$|str::converts::from_utf8$")
PANICS = r"(option::Option|result::Result)::<.*>::(unwrap|expect|unwrap_unchecked|unwrap_err|expect_err)$"
SELSET_LOOKUP = r"selection_set_for_parent_query$|selectable_reader_selection_set$"


def sccs_of(fb, crates):
    sys.setrecursionlimit(20000)
    owner = lambda f: f.root or f.id
    edges = {}
    impls = {}
    for f in fb.fns.values():
        if f.crate in crates and f.j.get("trait") and f.name:
            impls.setdefault((f.j["trait"], f.name), []).append(f)
    for f in fb.fns.values():
        if f.crate not in crates or "::tests::" in f.id or "::test::" in f.id:
            continue
        o = owner(f)
        for t in f.calls():
            c = t.callee
            if c in fb.fns and fb.fns[c].crate in crates:
                edges.setdefault(o, set()).add(owner(fb.fns[c]))
            elif t.j.get("trait") and c not in fb.fns and t.j["trait"].split("::")[0] in crates:
                # a trait method called through a type parameter: every workspace impl of that method is a target
                meth = (t.declared or c or "").split("::")[-1]
                for g in impls.get((t.j["trait"], meth), ()):
                    edges.setdefault(o, set()).add(owner(g))
    idx, low, st, on, out, i = {}, {}, [], set(), [], [0]

    def sc(v):
        idx[v] = low[v] = i[0]
        i[0] += 1
        st.append(v)
        on.add(v)
        for w in edges.get(v, ()):
            if w not in idx:
                sc(w)
                low[v] = min(low[v], low[w])
            elif w in on:
                low[v] = min(low[v], idx[w])
        if low[v] == idx[v]:
            comp = []
            while True:
                w = st.pop()
                on.discard(w)
                comp.append(w)
                if w == v:
                    break
            if len(comp) > 1 or v in edges.get(v, ()):
                out.append(sorted(comp))
    for v in sorted(edges):
        if v not in idx:
            sc(v)
    return out, edges


def run(cx):
    # ---- R08.input-conversion -----------------------------------------------------------------------------
    fb = cx.mir("isograph_compiler")
    comp = [f for f in fb.fns.values() if f.crate == "isograph_compiler" and "::tests::" not in f.id]
    convs = [(f, t) for f in comp for t in f.calls() if re.search(CONV, (t.callee or "") + "|" + (t.declared or ""))]
    cx.floor("R08.input-conversion conversions of external bytes / names examined", len(convs), 4)
    for f in comp:
        for t in f.calls():
            if not re.search(PANICS, t.callee or "") or not t.args:
                continue
            a = op_place(t.args[0])
            if a is None:
                continue
            src = local_flows_from(f, a.local, lambda d: not hasattr(d, "rv") and re.search(CONV, (d.callee or "") + "|" + (d.declared or "")), 6)
            if src is None:
                cx.count()
                continue
            k = sum(1 for t2 in f.calls() if re.search(PANICS, t2.callee or "") and t2.bb < t.bb)
            name = (f.name or (fb.fns[f.root].name + "::closure" if f.root and f.root in fb.fns else f.id))
            cx.ob("R08.input-conversion", "%s|%s-unwrapped#%d" % (name, (src.callee or src.declared).split("::")[-1], k), False,
                  "the result of %s (which fails depending on the bytes of a file name / file content) is unwrapped: a "
                  "project containing such a file makes the compiler panic instead of reporting a diagnostic" % (
                      (src.callee or src.declared).split("::")[-1]), f.loc(t.line))
    for f, t in convs:
        cx.ob("R08.input-conversion", "%s|%s@handled" % (f.name or f.id.split("::")[-2], (t.callee or t.declared).split("::")[-1]), True, "", f.loc(t.line),
              nontrivial=False)
    # ---- R08.ref-recursion -----------------------------------------------------------------------------------
    sb = cx.mir("isograph_schema", "artifact_content")
    sccs, edges = sccs_of(sb, {"isograph_schema", "artifact_content"})
    byowner = {}
    for f in sb.fns.values():
        byowner.setdefault(f.root or f.id, []).append(f)
    ref_sccs = []
    for comp_ in sccs:
        cs = set(comp_)
        ref_edges = []
        for o in comp_:
            for g in byowner.get(o, []):
                for t in g.calls():
                    if t.callee in sb.fns and (sb.fns[t.callee].root or t.callee) in cs:
                        for a in t.arg_places():
                            if a is None:
                                continue
                            hit = local_flows_from(g, a.local, lambda d: not hasattr(d, "rv") and re.search(SELSET_LOOKUP, d.callee or d.declared or ""), 8)
                            if hit is not None:
                                ref_edges.append((g, t))
                                break
        if ref_edges:
            ref_sccs.append((comp_, ref_edges))
    cx.floor("R08.ref-recursion call-graph components descending into another declaration's selection set", len(ref_sccs), 2)
    cx.extra["reference_recursive_components"] = [[x.split("::")[-1] for x in c] for c, _ in ref_sccs]
    merge = [(c, e) for c, e in ref_sccs if any(x.endswith("create_merged_selection_set::merge_non_loadable_client_type") for x in c)]
    if len(merge) != 1:
        raise AnchorError("merge traversal component (merge_non_loadable_client_type) not found among the reference-recursive components")
    comp_, ref_edges = merge[0]
    cs = set(comp_)
    # guard functions: consult a map, and on the absent branch insert before any descent
    guards = []
    for o in comp_:
        for g in byowner.get(o, []):
            gets = [t for t in g.calls() if re.search(r"(BTreeMap|HashMap|HashSet|BTreeSet)::<.*>::(get|get_mut|contains_key|contains|entry)$", t.callee or "")]
            inss = [t for t in g.calls() if re.search(r"(BTreeMap|HashMap|HashSet|BTreeSet)::<.*>::insert$", t.callee or "")]
            desc = [t for t in g.calls() if t.callee in sb.fns and (sb.fns[t.callee].root or t.callee) in cs]
            def coll(t):
                a = op_place(t.args[0]) if t.args else None
                return samesrc.producer(g, a.local)[:2] if a is not None else None
            shared = {coll(t) for t in gets} & {coll(t) for t in inss}
            shared.discard(None)
            if shared and desc:
                guards.append((g, gets, [t for t in inss if coll(t) in shared], desc))
    cx.floor("R08.ref-recursion functions consulting an encountered-fields map in the merge component", len(guards), 1)
    for g, gets, inss, desc in guards:
        for k, d in enumerate(desc):
            before = any(g.dominates(i_.bb, d.bb) and i_.bb != d.bb for i_ in inss)
            cx.ob("R08.ref-recursion", "%s|insert-before-descent#%d" % (g.name, k), before,
                  "%s looks the field up in the encountered-fields map, and when it is absent descends into the field's "
                  "selection set (%s) BEFORE inserting it: two client fields that select each other are never found in "
                  "the map, the descent does not end and the process overflows its stack" % (
                      g.name, (d.callee or "?").split("::")[-1]), g.loc(d.line))
    # every cycle through a reference edge passes a guard function
    gset = {g.root or g.id for g, *_ in guards}
    for g, t in ref_edges:
        src, dst = g.root or g.id, sb.fns[t.callee].root or t.callee
        # can dst reach src without passing a guard?
        seen, work = set(), [dst]
        free = False
        while work:
            v = work.pop()
            if v in seen or v in gset:
                continue
            seen.add(v)
            if v == src:
                free = True
                break
            work += [w for w in edges.get(v, ()) if w in cs]
        cx.ob("R08.ref-recursion", "%s->%s|cycle-passes-encountered-map" % (src.split("::")[-1], dst.split("::")[-1]),
              not free or dst in gset or src in gset,
              "a cycle through the by-name descent %s -> %s does not pass the function that consults the "
              "encountered-fields map" % (src.split("::")[-1], dst.split("::")[-1]), g.loc(t.line))
    for c, e in ref_sccs:
        if c is not comp_:
            cx.note("reference-recursive traversal without its own cycle cut (relies on the merge traversal running first "
                    "on the same declarations): %s" % [x.split("::")[-1] for x in c])
    # ---- R08.type-recursion: recursion that follows type references by name ---------------------------------
    NAME_ONLY = (r"^(&?(mut )?([\w:]*::)?IsographDatabase<.*>|u8|u16|u32|u64|usize|i32|i64|bool|char|\(\)|"
                 r"[\w:]*(EntityName|SelectableName|Name|NameWrapper)|[\w:]*Format)$")
    tb = cx.mir("isograph_schema", "artifact_content", "graphql_network_protocol")
    tcr = {"isograph_schema", "artifact_content", "graphql_network_protocol"}
    tsccs, _ = sccs_of(tb, tcr)
    ncyc = 0
    for comp2 in tsccs:
        fs = [tb.fns[o] for o in comp2 if o in tb.fns]
        if len(comp2) == 1 and all("memo" in str(g.j.get("expn")) for g in fs):
            continue    # the #[memo] wrapper calling its own inner function, not a recursion
        ncyc += 1
        for g in fs:
            tys = [g.local_ty(i) for i in range(1, g.argc + 1)]
            if g.argc and all(re.search(NAME_ONLY, t_) for t_ in tys):
                cx.ob("R08.type-recursion", "%s|recursive-with-name-only-parameters" % (g.name or g.id.split("::")[-1]), False,
                      "%s is part of a call cycle (%s) and receives nothing but names and scalars (%s): whatever it "
                      "recurses over is looked up by name, i.e. it follows references of the schema's type graph, which may "
                      "be cyclic (`input F { and: [F!] }`), and no visited set can be threaded through these parameters: "
                      "the recursion does not end" % (g.name, [x.split("::")[-1] for x in comp2][:5], [t_.split("::")[-1] for t_ in tys]),
                      g.loc())
    cx.floor("R08.type-recursion call cycles examined", ncyc, 10)
    # ---- R08.validation-complete (shared with C16): no selection escapes validation --------------------------
    from props.sel_shared import every_selection_dispatched
    every_selection_dispatched(cx, cx.mir("isograph_schema"), "R08.validation-complete")
    # ---- R08.index-provenance (shared with C18) ----------------------------------------------------------------
    from props.fs_shared import write_index_rule
    write_index_rule(cx, cx.mir("artifact_content"), "R08.index-provenance")
    # ---- R08.watch-reports ------------------------------------------------------------------------------------
    w = fb.one(r"watch::handle_watch_command::\{closure#0\}$")
    compiles = blocks_calling(w, r"with_duration::WithDuration::<T>::new$")
    prints = blocks_calling(w, r"batch_compile::print_result$")
    waits = blocks_calling(w, r"mpsc::.*Receiver::<T>::recv$|Receiver<T>>?::recv$")
    cx.floor("R08.watch-reports compile steps in the watch loop", len(compiles), 2)
    ends = [b.i for b in w.blocks if any(s.rv == "setdiscr" for s in b.stmts)] + waits
    for k, b in enumerate(sorted(compiles)):
        p = path_without(w, b, [e for e in ends if e != b], prints)
        cx.ob("R08.watch-reports", "handle_watch_command|compile#%d-followed-by-print_result" % k, p is None,
              "after a compile the loop can wait for the next event (or end) without print_result: neither artifacts "
              "nor diagnostics are reported for that recompile; path %s" % fmt_path(w, p), w.loc(w.blocks[b].term.line))
