"""C29 — GraphQL syntax parsing matches the specification (lexical grammar and keyword tables only)."""
import re, itertools
from rulelib import *
from factbase import AnchorError, op_place, op_const

TITLE = "GraphQL syntax parsing matches the specification"
TECHNIQUE = "constant-table / regular-language comparison of the logos lexer tables (syn) and the parser's keyword constants (MIR) with the June 2018 lexical grammar and keyword sets written out in the rule"
EXPLANATION = (
    "Claimed for the lexical layer and the keyword tables only. The June 2018 specification's lexical grammar is "
    "finite and is written out in this rule: punctuators, ignored characters (BOM, tab, space, line terminators, "
    "comma, comments), Name, IntValue, FloatValue, the escape table of strings, the character classes of strings and "
    "block strings. It is compared with the tables the lexer is generated from (the #[token]/#[regex] attributes of "
    "TokenKind, StringToken and BlockStringToken in relay_lexer.rs): every punctuator has a token; the skip rule "
    "accepts exactly the ignored characters and the comment shape; the Name / Int / Float regular expressions denote "
    "the same languages as the specification's (decided by exhaustive comparison on all strings up to a stated length "
    "over the alphabet that occurs in them); the escape tables and the character classes are equal as sets over the "
    "Basic Multilingual Plane. On the parser side, every definition keyword, operation type, directive location and "
    "value keyword of the specification occurs among the string constants the recursive-descent parser compares "
    "against (a keyword without a handler makes a specification document unparsable). Inclusion is checked in the "
    "direction 'specification subset of implementation' for keyword tables, because the vendored parser deliberately "
    "also accepts later-draft syntax (repeatable, VARIABLE_DEFINITION, interfaces implementing interfaces). The "
    "BlockStringValue computation (three sibling copies in the workspace) classifies white space by comparison with "
    "tab and space only (no Unicode-aware trim / is_whitespace). The context-free grammar, the shape of the produced "
    "tree, the rest of block-string value semantics and print/re-parse equality are NOT decided: they are differential properties against a reference implementation. The same lexer tables "
    "are used by the compiler's own schema parser (C30, not claimed).")
ASSUMPTIONS = ["logos compiles the attribute regexes with the regex-syntax semantics that Python's re shares for the constructs used here (classes, alternation, ?, +, *, \\uXXXX)"]

SPEC_PUNCT = ["!", "$", "(", ")", "...", ":", "=", "@", "[", "]", "{", "|", "}", "&"]
SPEC_IGNORED = {"﻿", "\t", " ", "\n", "\r", ","}
SPEC_NAME = r"[_A-Za-z][_0-9A-Za-z]*"
SPEC_INT = r"-?(0|[1-9][0-9]*)"
SPEC_FLOAT = r"-?(0|[1-9][0-9]*)(\.[0-9]+([eE][+-]?[0-9]+)?|[eE][+-]?[0-9]+)"
SPEC_ESCAPES = set('"\\/bfnrt')
SPEC_DEFINITION_KEYWORDS = ["query", "mutation", "subscription", "fragment", "schema", "scalar", "type", "interface", "union",
                            "enum", "input", "directive", "extend"]
SPEC_OTHER_KEYWORDS = ["on", "implements", "true", "false", "null"]
SPEC_DIRECTIVE_LOCATIONS = ["QUERY", "MUTATION", "SUBSCRIPTION", "FIELD", "FRAGMENT_DEFINITION", "FRAGMENT_SPREAD", "INLINE_FRAGMENT",
                            "SCHEMA", "SCALAR", "OBJECT", "FIELD_DEFINITION", "ARGUMENT_DEFINITION", "INTERFACE", "UNION", "ENUM",
                            "ENUM_VALUE", "INPUT_OBJECT", "INPUT_FIELD_DEFINITION"]


def source_character(c):
    o = ord(c)
    return o in (0x9, 0xA, 0xD) or 0x20 <= o <= 0xFFFF


def lexer_tables(syn):
    out = {}
    for it in syn["items"]:
        if it["kind"] == "enum" and it.get("file", "").endswith("graphql-syntax/src/relay_lexer.rs"):
            t = {"token": {}, "regex": {}, "skip": []}
            for v in it["variants"]:
                for a in v["attrs"]:
                    if a["name"] in ("token", "regex") and a["args"]:
                        if len(a["args"]) >= 2 and isinstance(a["args"][1], dict) and "skip" in a["args"][1].get("expr", ""):
                            t["skip"].append(a["args"][0])
                        else:
                            t[a["name"]].setdefault(v["name"], []).append(a["args"][0])
            out[it["path"].split("::")[-1]] = t
    return out


def same_language(rx_a, rx_b, alphabet, maxlen):
    """first string (up to maxlen over alphabet) on which the two regexes disagree, or None"""
    a, b = re.compile(rx_a), re.compile(rx_b)
    n = 0
    for k in range(0, maxlen + 1):
        for tup in itertools.product(alphabet, repeat=k):
            w = "".join(tup)
            n += 1
            if (a.fullmatch(w) is None) != (b.fullmatch(w) is None):
                return w, n
    return None, n


def run(cx):
    syn = cx.syn()
    tabs = lexer_tables(syn)
    for need in ("TokenKind", "StringToken", "BlockStringToken"):
        if need not in tabs:
            raise AnchorError("lexer enum %s not found in relay_lexer.rs" % need)
    tk = tabs["TokenKind"]
    where = "relay-crates/graphql-syntax/src/relay_lexer.rs"
    # ---- punctuators ------------------------------------------------------------------------------------
    tokens = {t for ts in tk["token"].values() for t in ts}
    cx.floor("R29.lexical tokens declared by the lexer", len(tokens), 14)
    for p in SPEC_PUNCT:
        cx.ob("R29.lexical", "punctuator|%s" % p, p in tokens,
              "the specification's punctuator %r has no #[token] in the lexer: documents using it are rejected" % p, where)
    # ---- ignored ----------------------------------------------------------------------------------------------
    if not tk["skip"]:
        raise AnchorError("no skip rule in TokenKind")
    alts = [a for rx_ in tk["skip"] for a in rx_.split("|")]
    cls = [a for a in alts if a.startswith("[")]
    com = [a for a in alts if a.startswith("#")]
    if not cls or len(cls) + len(com) != len(alts):
        raise AnchorError("skip rules are not of the shapes `[class]+` and `#comment`: %r" % tk["skip"])
    cres = [re.compile(c_.rstrip("+")) for c_ in cls]
    skipped = {chr(c) for c in range(0, 0x10000) if any(cre.fullmatch(chr(c)) for cre in cres)}
    for ch in sorted(SPEC_IGNORED):
        cx.ob("R29.lexical", "ignored|U+%04X-is-skipped" % ord(ch), ch in skipped,
              "the specification ignores U+%04X between tokens but the lexer's skip rule does not" % ord(ch), where)
    extra = sorted(skipped - SPEC_IGNORED)
    cx.ob("R29.lexical", "ignored|nothing-else-is-skipped", not extra,
          "the lexer silently skips %s, which the specification does not allow in a document (not a SourceCharacter "
          "that is ignored): such documents are accepted here and rejected by a conforming implementation" % (
              ["U+%04X" % ord(c) for c in extra]), where)
    cre2 = re.compile(com[0]) if len(com) == 1 else None
    ok = cre2 is not None and all(cre2.fullmatch(w) for w in ("#", "# a,b \t{}\"", "#﻿x")) and not any(
        cre2.fullmatch(w) for w in ("#a\n", "#a\r", "a#"))
    cx.ob("R29.lexical", "ignored|comment-shape", bool(ok),
          "a comment is `#` followed by any characters except line terminators; the lexer's comment rule is %r" % (com[0] if com else None), where)
    # ---- Name, IntValue, FloatValue ----------------------------------------------------------------------------
    def one(kind):
        r = tk["regex"].get(kind)
        if not r or len(r) != 1:
            raise AnchorError("lexer regex for %s not found" % kind)
        return r[0]
    total = 0
    for kind, spec, alphabet, maxlen in (("Identifier", SPEC_NAME, "_aZ09-.", 4), ("IntegerLiteral", SPEC_INT, "-+.0159eE_a", 5),
                                         ("FloatLiteral", SPEC_FLOAT, "-+.0159eE", 6)):
        w, n = same_language(one(kind), spec, alphabet, maxlen)
        total += n
        cx.ob("R29.lexical", "regex|%s-equals-specification" % kind, w is None,
              "the lexer's %s rule %r and the specification's %r disagree on %r" % (kind, one(kind), spec, w), where)
    cx.count(total)
    # ---- strings -------------------------------------------------------------------------------------------------
    st = tabs["StringToken"]
    esc = st["regex"].get("EscapedCharacter", [None])[0]
    if esc is None:
        raise AnchorError("StringToken::EscapedCharacter not found")
    ere = re.compile(esc)
    accepted = {chr(c) for c in range(0x20, 0x7F) if ere.fullmatch("\\" + chr(c))}
    cx.ob("R29.lexical", "string|escape-table", accepted == SPEC_ESCAPES,
          "escaped characters accepted in strings: %s; specification: %s" % (sorted(accepted), sorted(SPEC_ESCAPES)), where)
    uni = st["regex"].get("EscapedUnicode", [None])[0]
    ure = re.compile(uni) if uni else None
    ok = ure is not None and all(ure.fullmatch(w) for w in ("\\u0000", "\\uFFFF", "\\uabCD")) and not any(
        ure.fullmatch(w) for w in ("\\u000", "\\u00000", "\\uG000", "\\U0000"))
    cx.ob("R29.lexical", "string|unicode-escape-is-4-hex", bool(ok), "\\uXXXX must take exactly four hexadecimal digits (rule %r)" % uni, where)
    chars = st["regex"].get("StringCharacters", [None])[0]
    if chars is None:
        raise AnchorError("StringToken::StringCharacters not found")
    sre = re.compile(chars.rstrip("+"))
    got = {c for c in range(0, 0x10000) if sre.fullmatch(chr(c))}
    want = {c for c in range(0, 0x10000) if source_character(chr(c)) and chr(c) not in '"\\\n\r'}
    diff = sorted(got ^ want)
    cx.ob("R29.lexical", "string|character-class", not diff,
          "characters allowed unescaped in a string differ from SourceCharacter minus quote, backslash and line "
          "terminators at %s" % ["U+%04X" % c for c in diff[:8]], where)
    cx.count(0x10000)
    lt = st["regex"].get("LineTerminator", [None])[0]
    cx.ob("R29.lexical", "string|line-terminator-ends-string", lt is not None and all(re.fullmatch(lt, w) for w in ("\n", "\r", "\r\n")),
          "a line terminator inside a quoted string must be recognised (as an error)", where, nontrivial=False)
    bt = tabs["BlockStringToken"]
    other = bt["regex"].get("Other", [None])[0]
    if other is None:
        raise AnchorError("BlockStringToken::Other not found")
    ore = re.compile(other)
    got = {c for c in range(0, 0x10000) if ore.fullmatch(chr(c))}
    want = {c for c in range(0, 0x10000) if source_character(chr(c))}
    diff = sorted(got ^ want)
    cx.ob("R29.lexical", "block-string|character-class", not diff,
          "characters allowed in a block string differ from SourceCharacter at %s" % ["U+%04X" % c for c in diff[:8]], where)
    btoks = {t for ts in bt["token"].values() for t in ts}
    cx.ob("R29.lexical", "block-string|delimiters", {'"""', '\\"""'} <= btoks and '"""' in tokens,
          "block strings are delimited by \"\"\" and may contain the escape \\\"\"\" (tokens: %s)" % sorted(btoks), where)
    # ---- parser keyword tables -------------------------------------------------------------------------------
    fb = cx.mir("graphql_syntax")
    consts = set()
    nfn = 0
    for f in fb.fns.values():
        if f.crate != "graphql_syntax" or not f.file.endswith("relay_parser.rs"):
            continue
        nfn += 1
        for s in f.stmts():
            for o in s.ops:
                c = op_const(o)
                if c and "str" in c:
                    consts.add(c["str"])
        for t in f.calls():
            for o in t.args:
                c = op_const(o)
                if c and "str" in c:
                    consts.add(c["str"])
    cx.floor("R29.keywords parser functions scanned", nfn, 40)
    for group, words in (("definition", SPEC_DEFINITION_KEYWORDS), ("keyword", SPEC_OTHER_KEYWORDS), ("directive-location", SPEC_DIRECTIVE_LOCATIONS)):
        for w in words:
            cx.ob("R29.keywords", "%s|%s" % (group, w), w in consts,
                  "the parser never compares a token with the specification's %s %r: documents using it cannot be parsed "
                  "as the specification requires" % (group, w), "relay-crates/graphql-syntax/src/relay_parser.rs")
    later = sorted(w for w in ("repeatable", "VARIABLE_DEFINITION") if w in consts)
    if later:
        cx.note("accepted beyond June 2018 (later drafts, by design of the vendored parser): %s" % later)
    # ---- block string values: WhiteSpace is tab and space only ------------------------------------------------
    # (the three copies of the BlockStringValue algorithm in the workspace are siblings and must agree)
    UNICODE_WS = r"<impl str>::(trim|trim_start|trim_end|trim_left|trim_right|split_whitespace|split_ascii_whitespace)$|char::methods::<impl char>::(is_whitespace|is_ascii_whitespace)$"
    allfb = cx.mir("graphql_syntax", "graphql_schema_parser", "isograph_lang_parser")
    copies = allfb.find(r"::clean_block_string_literal$")
    cx.floor("R29.block-string implementations of BlockStringValue", len(copies), 3)
    for f in copies:
        reach = [g for g in allfb.reachable_fns([f]).values() if g.crate == f.crate and g.file == f.file]
        fam = []
        for g in [f] + list(reach):
            for h in allfb.with_closures(g):
                if h not in fam:
                    fam.append(h)
        # functions passed by name (`line.contains(is_not_whitespace)`) belong to the computation too
        for _ in range(3):
            for h in list(fam):
                for st in list(h.stmts()) + [None]:
                    ops = st.ops if st is not None else [a for t in h.calls() for a in t.args]
                    for o in ops:
                        c = op_const(o)
                        if c and c.get("fn") in allfb.fns and allfb.fns[c["fn"]] not in fam and allfb.fns[c["fn"]].file == f.file:
                            fam.append(allfb.fns[c["fn"]])
        bad = [(h, t) for h in fam for t in h.calls() if re.search(UNICODE_WS, t.callee or "")]
        cx.ob("R29.block-string", "%s|whitespace-is-tab-and-space-only" % f.crate, not bad,
              "the BlockStringValue computation uses %s, which treats every Unicode White_Space character (U+00A0, U+3000, ...) "
              "as indentation / blank; the specification's WhiteSpace is tab and space only, so block strings whose lines start "
              "with such characters get a different value" % sorted({(t.callee or '').split('::')[-1] for _, t in bad}),
              bad[0][0].loc(bad[0][1].line) if bad else f.loc())
        chars = set()
        for h in fam:
            for st in h.stmts():
                for o in st.ops:
                    c = op_const(o)
                    if c and c.get("ty") == "char":
                        chars.add(c.get("v"))
        cx.ob("R29.block-string", "%s|whitespace-constants" % f.crate, {" ", "\t"} <= chars and not (chars - {" ", "\t", "\n", "\r"}),
              "the characters compared against in the BlockStringValue computation are %s; expected space and tab" % sorted(chars), f.loc(),
              nontrivial=False)

