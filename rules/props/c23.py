"""C23 — Language-server positions address the right text."""
import re
from rulelib import *
from units import Units, return_units, adt_field_units, BYTE, CHAR, UTF16, ANY
from factbase import AnchorError, op_place, op_const

TITLE = "Language-server positions address the right text"
TECHNIQUE = "unit inference (byte / char / utf16) over MIR of isograph_lsp with unit-typed sinks (Position.character, SemanticToken.delta_start/length, slice indices)"
EXPLANATION = (
    "Unit inference over the MIR of the language server's position code: integers get units from their sources "
    "(str::len, char_indices index, Span.start/.end, byte offsets of extractions -> byte; chars().enumerate() index "
    "and chars().count() -> char; encode_utf16().count(), len_utf16 and protocol columns -> utf16) and units flow "
    "through copies, casts, + - min max, struct fields and function results. Every integer stored into "
    "lsp_types::Position.character, SemanticToken.delta_start and SemanticToken.length must be utf16; string slice "
    "bounds must be bytes; no addition/subtraction mixes units (e.g. byte - char, char + utf16). Invisible on ASCII. "
    "Token/range correctness beyond units is not decided.")
ASSUMPTIONS = ["the client negotiates the default UTF-16 position encoding"]

FILES = r"isograph_lsp/src/(semantic_tokens|format|hover|location_utils|goto_definition|document_highlight|completion|code_action|diagnostic_notification)\.rs$"


def run(cx):
    fb = cx.mir("isograph_lsp")
    fns = [f for f in fb.fns.values() if re.search(FILES, f.file) and "::test" not in f.id]
    summ = return_units(fb, fns)
    fu = adt_field_units(fb, fns, summ)
    n_pos = n_tok = n_slice = 0
    for f in fns:
        u = Units(fb, f, summ, fu)
        for s in f.stmts():
            if s.rv == "aggregate" and s.j.get("agg") == "adt":
                adt = s.j["adt"]
                if adt.endswith("lsp_types::Position") or adt.endswith("::Position") and "lsp" in adt:
                    n_pos += 1
                    o = s.ops[s.j["fields"].index("character")]
                    un = u.op_units(o)
                    c = op_const(o)
                    ok = (bool(un) and un <= {UTF16, ANY}) or (c is not None) or not un
                    cx.ob("R23.units", "%s|Position.character" % f.id, ok,
                          "Position.character is filled with a count in %s; the protocol column is in UTF-16 code "
                          "units, so every position after a non-ASCII character on the line is wrong" % (
                              "/".join(sorted(un)) or "an unknown unit"), f.loc(s.line))
                if adt.endswith("SemanticToken") and "lsp_types" in adt:
                    n_tok += 1
                    for fld in ("delta_start", "length"):
                        o = s.ops[s.j["fields"].index(fld)]
                        un = u.op_units(o) | (u._field_source(op_place(o)) if op_place(o) is not None else set())
                        cx.ob("R23.units", "%s|SemanticToken.%s" % (f.id, fld), un <= {UTF16, ANY},
                              "SemanticToken.%s is filled with a count in %s; it must be in UTF-16 code units" % (
                                  fld, "/".join(sorted(un)) or "an unknown unit"), f.loc(s.line))
            if s.rv == "binop" and re.match(r"(Add|Sub)", s.j["binop"]):
                a, b = [u.op_units(o) | (u._field_source(op_place(o)) if op_place(o) is not None else set()) for o in s.ops]
                a, b = a - {ANY}, b - {ANY}
                if a and b and not (a & b):
                    cx.ob("R23.units", "%s|mixed-arithmetic" % f.id, False,
                          "arithmetic mixes %s and %s: the result addresses the wrong text as soon as the line "
                          "contains a multi-byte character" % ("/".join(sorted(a)), "/".join(sorted(b))), f.loc(s.line))
                elif a and b:
                    cx.count()
        for t in f.calls():
            if term_calls(t, r"core::str::traits::<impl std::ops::Index<I> for str>::index$"):
                n_slice += 1
                rl = op_place(t.args[1])
                un = set()
                for d in local_defs(f, rl.local):
                    if hasattr(d, "rv") and d.rv == "aggregate":
                        for o in d.ops:
                            un |= u.op_units(o) | (u._field_source(op_place(o)) if op_place(o) is not None else set())
                k = sum(1 for x in f.calls() if x.bb < t.bb and term_calls(x, r"Index<I> for str>::index$"))
                cx.ob("R23.units", "%s|slice#%d" % (f.id, k), un <= {BYTE},
                      "a string is sliced with an index counted in %s (must be a byte offset)" % "/".join(sorted(un)),
                      f.loc(t.line))
    cx.floor("R23.units Position constructions", n_pos, 1)
    cx.floor("R23.units SemanticToken constructions", n_tok, 1)
    cx.floor("R23.units string slices", n_slice, 3)
    cx.extra["unit_summaries"] = {str(k): sorted(v) for k, v in summ.items()}
    cx.extra["field_units"] = {"%s.%s" % k: sorted(v) for k, v in fu.items()}
