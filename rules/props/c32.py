"""C32 — Cursor positions resolve to the innermost syntax node."""
import re
from rulelib import *
from factbase import AnchorError, op_place, op_const

TITLE = "Cursor positions resolve to the innermost syntax node"
TECHNIQUE = "dominance rule over every ResolvePosition::resolve body (MIR) + type-shape completeness over ADT field tables"
EXPLANATION = (
    "For every implementation of ResolvePosition::resolve in the workspace (derive expansions and the hand-written "
    "ones): each recursive resolve call on a child is dominated by the true edge of Span::contains(position) "
    "evaluated on that child's span (descent is guarded), enum implementations delegate from every variant without "
    "wildcard, and for each struct implementing the trait every field whose type contains a type that itself "
    "implements ResolvePosition is visited by the body (a contains test on a span read from that field). The leaf "
    "fallback returns the node's own variant. Innermost-ness for arbitrary trees at run time is not decided beyond "
    "these per-node clauses.")
ASSUMPTIONS = ["child spans are nested in parent spans (parser property C07)"]


def idents(ty):
    return set(re.findall(r"[A-Za-z_][A-Za-z0-9_]*", ty))


def run(cx):
    fb = cx.mir("isograph_lang_types", "graphql_lang_types", "common_lang_types", "resolve_position")
    impls = [f for f in fb.methods("resolve", trait=r"resolve_position::ResolvePosition$") if "::test" not in f.id]
    cx.floor("R32 ResolvePosition::resolve implementations", len(impls), 14)
    implementors = set()
    for f in impls:
        base = re.sub(r"<.*", "", f.impl_for).split("::")[-1]
        implementors.add(base)
    # alias names that denote implementors
    for a, j in fb.aliases.items():
        if idents(j["ty"]) & implementors and a.split("::")[-1] not in ("Result",):
            pass

    for f in impls:
        rec = [t for t in f.calls() if re.search(r"ResolvePosition>?::resolve$", t.declared or "")]
        cont = [t for t in f.calls() if term_calls(t, r"common_lang_types::Span::contains$")]
        self_sw = [s for s in discr_switches(f) if s["place"].local == 1 or (
            local_flows_from(f, s["place"].local, lambda d: hasattr(d, "rv") and any(p.local == 1 for p in d.reads()), 3) is not None
            and s["adt"] and s["adt"].split("::")[-1] in re.sub(r"<.*", "", f.impl_for))]
        is_enum = bool(self_sw) and not cont
        if is_enum:
            sw = self_sw[0]
            cx.ob("R32.guarded-descent", f.id + "|enum-delegates-every-variant", not sw["wildcard"] and all(
                any(b in reachable_from(f, tgt) for b in [t.bb for t in rec]) for tgt in sw["arms"].values()),
                "an enum node does not delegate resolution from every variant", f.loc())
            continue
        for i, t in enumerate(rec):
            guard = None
            for c in cont:
                try:
                    tt, ft = call_bool_branch(f, c)
                except AnchorError:
                    continue
                if f.dominates(tt, t.bb) and t.bb not in reachable_from(f, ft) - reachable_from(f, tt):
                    guard = c
            cx.ob("R32.guarded-descent", "%s|descent#%d-guarded" % (f.id, i), guard is not None,
                  "a child's resolve is entered without the cursor being inside that child's span: the innermost "
                  "node reported can be one that does not contain the cursor", f.loc(t.line))
        # the node answers with itself only after every child has been examined: each own-node result is
        # reachable from the false edge of every containment test (none precedes a test)
        retbase = re.sub(r"<.*", "", f.ret or "")
        own = sorted({b.i for b in f.blocks for st in b.stmts if st.rv == "aggregate" and st.j.get("agg") == "adt"
                      and retbase and re.sub(r"<.*", "", st.j.get("adt", "")).endswith(retbase.lstrip("&"))})
        for k, c in enumerate(cont):
            try:
                tt, ft = call_bool_branch(f, c)
            except AnchorError:
                continue
            after = reachable_from(f, ft) | {ft}
            early = [b for b in own if b not in after]
            cx.ob("R32.guarded-descent", "%s|own-node-only-after-test#%d" % (f.id, k), not early,
                  "the node resolves to itself before the child tested at %s has been examined (own-node result in "
                  "block(s) %s precedes the test): a cursor inside that child resolves to the enclosing node instead of "
                  "the innermost one" % (f.loc(c.line), early), f.loc(c.line), nontrivial=bool(own))
        # leaf fallback: some return path constructs the node's own path (no recursive call)
        p = path_without(f, 0, f.return_blocks(), [t.bb for t in rec]) if rec else [0]
        cx.ob("R32.guarded-descent", f.id + "|leaf-fallback", p is not None,
              "when no child contains the cursor the node must resolve to itself", f.loc(), nontrivial=bool(rec))

    # ---- R32.nesting-by-construction: grammar functions never build a node span by hand -----------------------
    pfb = cx.mir("isograph_lang_parser")
    news = [(g, t) for g in pfb.fns.values() if g.crate == "isograph_lang_parser" and "::tests::" not in g.id
            for t in g.calls() if term_calls(t, r"common_lang_types::Span::new$")]
    in_lexer = [(g, t) for g, t in news if g.file.endswith("peekable_lexer.rs")]
    cx.floor("R32.nesting-by-construction Span::new sites in the bracket helpers (positive control)", len(in_lexer), 3)
    outside = [(g, t) for g, t in news if not g.file.endswith("peekable_lexer.rs")]
    cx.ob("R32.nesting-by-construction", "isograph_lang_parser|Span::new-only-in-peekable_lexer", not outside,
          "a grammar function builds a node span by hand (%s): node spans come from with_embedded_location_result / "
          "with_span_result, which bracket every token the node consumed, so that each child span lies inside its "
          "parent's; a hand-made span can leave a child (e.g. an alias) outside its parent, and a cursor on it then "
          "resolves to the enclosing node" % ["%s:%d" % (g.name, t.line) for g, t in outside],
          outside[0][0].loc(outside[0][1].line) if outside else "crates/isograph_lang_parser/src/parse_iso_literal.rs")
    # ---- R32.contains: the containment test constrains both ends ------------------------
    sc = fb.one(r"^common_lang_types::(span::)?Span::contains$")
    def fld(o):
        p_ = op_place(o)
        if p_ is None:
            return None
        if p_.fields():
            return (p_.local, p_.fields()[-1])
        for d in local_defs(sc, p_.local):
            if hasattr(d, "rv"):
                for q in d.reads():
                    if q.fields():
                        return (q.local, q.fields()[-1])
        return None
    cmps = [(x.j["binop"], [fld(o) for o in x.ops]) for x in sc.stmts()
            if x.rv == "binop" and x.j["binop"] in ("Le", "Ge", "Lt", "Gt")]
    starts = [c for c in cmps if c == ("Le", [(1, "start"), (2, "start")]) or c == ("Ge", [(2, "start"), (1, "start")])]
    ends = [c for c in cmps if c == ("Ge", [(1, "end"), (2, "end")]) or c == ("Le", [(2, "end"), (1, "end")])]
    cx.ob("R32.contains", sc.id + "|both-bounds", len(starts) == 1 and len(ends) == 1 and len(cmps) == 2,
          "Span::contains must require start <= other.start and end >= other.end (non-strict on both ends)", sc.loc(),
          detail=str(cmps))

    # guard and descent concern the same child
    def origins(f, local):
        out = set()
        seen = set()
        work = [local]
        n = 0
        while work and n < 60:
            n += 1
            l = work.pop()
            if l in seen:
                continue
            seen.add(l)
            for d in local_defs(f, l):
                if hasattr(d, "rv"):
                    for p in d.reads():
                        if p.local == 1 and p.fields():
                            out.add("field:" + p.fields()[0])
                        work.append(p.local)
                else:
                    if term_calls(d, r"Iterator>?::next$"):
                        out.add("iter:%d" % d.bb)
                    for p in d.arg_places():
                        if p is not None:
                            work.append(p.local)
        return out
    for f in impls:
        rec = [t for t in f.calls() if re.search(r"ResolvePosition>?::resolve$", t.declared or "")]
        cont = [t for t in f.calls() if term_calls(t, r"common_lang_types::Span::contains$")]
        for i, t in enumerate(rec):
            gs = []
            for c in cont:
                try:
                    tt, ft = call_bool_branch(f, c)
                except AnchorError:
                    continue
                if f.dominates(tt, t.bb):
                    gs.append(c)
            if not gs:
                continue
            g = max(gs, key=lambda c: len(f.dominators()[c.bb]))
            og = origins(f, op_place(g.args[0]).local)
            ot = origins(f, op_place(t.args[0]).local)
            cx.ob("R32.guarded-descent", "%s|descent#%d-same-child" % (f.id, i), bool(og & ot),
                  "the span that is tested and the child that is descended into are different children", f.loc(t.line),
                  detail="guard %s / descent %s" % (sorted(og), sorted(ot)))

    # ---- R32.complete --------------------------------------------------------------
    for f in impls:
        base = re.sub(r"<.*", "", f.impl_for)
        adt = None
        for k, j in fb.adts.items():
            if k.endswith("::" + base.split("::")[-1]) and j["kind"] == "Struct":
                adt = j
        if adt is None:
            continue
        cont = [t for t in f.calls() if term_calls(t, r"common_lang_types::Span::contains$")]
        for fld in adt["variants"][0]["fields"]:
            inner = idents(fld["ty"]) & implementors
            wrappers = idents(fld["ty"]) & {"WithLocation", "WithEmbeddedLocation", "WithGenericLocation", "GraphQLTypeAnnotation"}
            if not inner or not wrappers:
                continue
            # a contains() test whose receiver span is read from this field
            visited = False
            for c in cont:
                a = op_place(c.args[0])
                if a is not None and local_flows_from(f, a.local, lambda d: hasattr(d, "rv") and any(
                        fld["name"] in p.fields() for p in d.reads()), 14) is not None:
                    visited = True
            cx.ob("R32.complete", "%s|field-%s-visited" % (f.id, fld["name"]), visited,
                  "field `%s` holds a located child node (%s) that implements ResolvePosition but resolve never "
                  "tests or descends into it: a cursor on that child resolves to the parent" % (
                      fld["name"], ", ".join(sorted(inner))), f.loc(),
                  detail=fld["ty"])
