"""C05 — Interning is a faithful bijection under every thread schedule."""
import re
from rulelib import *
from factbase import AnchorError, op_place, op_const, Place

TITLE = "Interning is a faithful bijection under every thread schedule"
TECHNIQUE = "MIR lock-region / who-may-call / dataflow rules over relay-crates/intern (sharded set + intern table)"
EXPLANATION = (
    "Decides the lock protocol that makes 'equal value => same id' independent of the schedule: in "
    "ShardedSet::get_or_insert_lock the write guard moved into the returned InsertLock is the guard under which the "
    "last table miss was observed (every definition of the guard is followed by a lookup through it before the lock "
    "is handed out, with no drop or re-acquire in between); in InternTable::intern the InsertLock stays alive across "
    "AtomicArena::add and is the receiver of the insert of the id just allocated; shard selection happens in one "
    "function used by get, get_or_insert_lock and unchecked_insert and the hash stored in the lock is the one used "
    "for insertion; Ord for StringId/BytesId compares the interned contents; the serializer/deserializer assign "
    "back-reference indices once per serialized value through the same per-type table. Linearizability and the "
    "behaviour under all schedules are not decided.")
ASSUMPTIONS = ["parking_lot RwLock write guards are exclusive; hashbrown RawTable::get/insert behave as documented"]

TABLE_GET = r"RawTable::<T, A>::get$|RawTable::<T>::get$"


def derives_from_local(fn, local, root, depth=10):
    """does `local` derive (ref / deref-call / copy chain) from `root`?"""
    def pred(d):
        if hasattr(d, "rv"):
            return any(p.local == root for p in d.reads())
        return any(p is not None and p.local == root for p in d.arg_places())
    if local == root:
        return True
    return local_flows_from(fn, local, pred, depth) is not None


def recheck_one(cx, f, agg, gets, tag):
    """One InsertLock construction site in get_or_insert_lock."""
    R = "R05.recheck-under-write-lock"
    names = agg.j["fields"]
    gop = op_place(agg.ops[names.index("shard")])
    guard = gop.local
    for d in local_defs(f, guard):
        if hasattr(d, "rv") and d.rv == "use":
            q = op_place(d.ops[0])
            if q is not None and not q.proj and "RwLockWriteGuard" in f.local_ty(q.local):
                guard = q.local
    gdefs = local_defs(f, guard)
    checked = [t for t in gets if derives_from_local(f, op_place(t.args[0]).local, guard)]
    if not checked:
        cx.ob(R, f.id + tag + "|lookup-through-write-guard", False,
              "no table lookup is performed through the write guard that is handed out in the InsertLock (nothing "
              "was re-checked under the write lock): two threads can both miss and insert the same value twice",
              f.loc(agg.line))
        return
    cx.ob(R, f.id + tag + "|lookup-through-write-guard", True, "a lookup is performed through the handed-out guard",
          f.loc(agg.line))
    for d in gdefs:
        kind = "write" if (not hasattr(d, "rv") and term_calls(d, r"RwLock::<R, T>::write$")) else "try_write"
        p = path_without(f, d.bb, [agg.bb], [t.bb for t in checked])
        cx.ob(R, "%s%s|recheck-after-%s" % (f.id, tag, kind), p is None,
              "the insert lock is handed out without re-checking the table after acquiring the write lock via %s: "
              "two threads can both miss and insert the same value under different ids" % kind, f.loc(d.line),
              detail=fmt_path(f, p) if p else None)
    for t in checked:
        sw = switch_on_call_result(f, t)
        if sw is None or "Some" not in sw["arms"]:
            raise AnchorError("get_or_insert_lock: result of table lookup not matched")
        hit_region = reachable_from(f, sw["arms"]["Some"])
        cx.ob(R, f.id + tag + "|lock-only-on-miss", agg.bb not in hit_region,
              "an InsertLock is returned although the lookup under the write lock found the value", f.loc(t.line))
        between = reachable_from(f, t.bb) & {b for b in range(len(f.blocks)) if agg.bb in f.reachable(b)}
        bad = []
        for b in between:
            blk = f.blocks[b]
            if blk.term.op == "drop" and blk.term.place.local == guard and b != agg.bb:
                bad.append("drop at L%d" % blk.term.line)
            if b != t.bb:
                for s in blk.stmts:
                    if s.dst is not None and s.dst.local == guard and not s.dst.proj and b != agg.bb:
                        bad.append("re-assigned at L%d" % s.line)
                if blk.term.op == "call" and blk.term.dst is not None and blk.term.dst.local == guard:
                    bad.append("re-acquired at L%d" % blk.term.line)
        cx.ob(R, f.id + tag + "|guard-held-from-check-to-handout", not bad,
              "the write guard is released or re-acquired between the miss and the construction of the InsertLock",
              f.loc(), detail="; ".join(bad) or None)


def insert_under_lock(cx, fb):
    R = "R05.insert-under-lock"
    g = fb.one(r"intern::intern::InternTable::<Id, <Id as intern::InternId>::Intern>::intern$")
    gl = [t for t in g.calls() if term_calls(t, r"ShardedSet::<T, S>::get_or_insert_lock$")]
    add = [t for t in g.calls() if term_calls(t, r"AtomicArena::<'a, T>::add$|AtomicArena::<'a, T>::add_get$")]
    ins = [t for t in g.calls() if term_calls(t, r"InsertLock::<'_, T, S>::insert$")]
    if len(add) != 1:
        raise AnchorError("InternTable::intern: expected exactly one arena allocation")
    if len(gl) != 1 or len(ins) != 1:
        cx.ob(R, g.id + "|insert-through-lock", False,
              "a new id is not inserted through the InsertLock obtained from get_or_insert_lock (%d lock calls, %d "
              "InsertLock::insert calls): check-then-insert is no longer atomic" % (len(gl), len(ins)), g.loc())
        return
    sw = switch_on_call_result(g, gl[0])
    if sw is None or "Err" not in sw["arms"]:
        raise AnchorError("InternTable::intern: lock result not matched")
    err_t = sw["arms"]["Err"]
    recv = op_place(ins[0].args[0]).local
    lock_locals = [i for i, l in enumerate(g.locals) if "InsertLock<" in l["ty"] and not l["ty"].startswith("&")]
    lock_local = None
    for l in lock_locals:
        if derives_from_local(g, recv, l):
            lock_local = l
    cx.ob(R, g.id + "|insert-through-lock", lock_local is not None,
          "the id is not inserted through the InsertLock obtained from get_or_insert_lock", g.loc(ins[0].line))
    order = g.dominates(err_t, add[0].bb) and g.dominates(add[0].bb, ins[0].bb)
    cx.ob(R, g.id + "|add-between-lock-and-insert", order,
          "the arena slot is not allocated between taking the insert lock and inserting (an id could be published "
          "for a value another thread also inserts)", g.loc(add[0].line))
    bad = []
    if lock_local is not None:
        region = reachable_from(g, err_t) & {b for b in range(len(g.blocks)) if ins[0].bb in g.reachable(b)}
        for b in region:
            blk = g.blocks[b]
            if b != ins[0].bb and blk.term.op == "drop" and blk.term.place.local == lock_local:
                bad.append("drop at L%d" % blk.term.line)
            if blk.term.op == "call" and term_calls(blk.term, r"mem::drop$"):
                a = op_place(blk.term.args[0])
                if a is not None and derives_from_local(g, a.local, lock_local):
                    bad.append("mem::drop at L%d" % blk.term.line)
    cx.ob(R, g.id + "|lock-live-across-add", not bad,
          "the insert lock is dropped before the new id is inserted", g.loc(), detail="; ".join(bad) or None)
    a0 = op_place(ins[0].args[1])
    flows = local_flows_from(g, a0.local, lambda d: not hasattr(d, "rv") and d is add[0]) if a0 else None
    cx.ob(R, g.id + "|inserts-allocated-id", flows is not None,
          "the value inserted into the set is not the id returned by the arena allocation", g.loc(ins[0].line))
    ok_ret = False
    if ins[0].j.get("t") is not None:
        for s in g.blocks[ins[0].j["t"]].stmts:
            if s.dst is not None and s.dst.local == 0:
                q = op_place(s.ops[0])
                if q is not None and local_flows_from(g, q.local,
                                                      lambda d: not hasattr(d, "rv") and d is add[0]) is not None:
                    ok_ret = True
    cx.ob(R, g.id + "|returns-allocated-id", ok_ret, "the id returned for a new value is not the allocated one",
          g.loc())


def run(cx):
    fb = cx.mir("intern")
    f = fb.one(r"intern::sharded_set::ShardedSet::<T, S>::get_or_insert_lock$")
    aggs = aggregates(f, r"^intern::sharded_set::InsertLock$")
    if not aggs:
        raise AnchorError("get_or_insert_lock: no InsertLock construction")
    gets = [t for t in f.calls() if term_calls(t, TABLE_GET)]
    for i, agg in enumerate(aggs):
        recheck_one(cx, f, agg, gets, "" if len(aggs) == 1 else "#%d" % i)
    # every InsertLock in the crate is built in get_or_insert_lock
    for h in fb.fns.values():
        if h.crate == "intern" and h is not f and aggregates(h, r"^intern::sharded_set::InsertLock$"):
            cx.ob("R05.recheck-under-write-lock", h.id + "|builds-InsertLock", False,
                  "an InsertLock is constructed outside get_or_insert_lock (without the checked-miss protocol)",
                  h.loc())

    insert_under_lock(cx, fb)

    # ---- R05.zero-seeded-before-publish ---------------------------------------------
    sh = fb.one(r"intern::intern::InternTable::<Id, <Id as intern::InternId>::Intern>::shards$")
    goi = [t for t in sh.calls() if term_calls(t, r"OnceCell::<T>::get_or_init$")]
    other_pub = [t for t in sh.calls() if re.search(r"OnceCell::<T>::(set|try_insert|get_or_try_init)$", t.callee or "")]
    seeders = [t for t in fb.calls_to(r"ShardedSet::<T, S>::unchecked_insert$") if "sharded_set" not in t.fn.file
               and "::tests::" not in t.fn.id]
    cx.floor("R05.zero-seeded unchecked_insert call sites", len(seeders), 1)
    for t in seeders:
        inside = t.fn.root == sh.id and t.fn.id != sh.id
        if not inside and t.fn.j.get("vis") != "pub" and not t.fn.root:
            # a private helper that builds the initial set: every call of it is made inside the initializer closure
            sites = [c for c in fb.calls_to(re.escape(t.fn.id) + "$")]
            inside = bool(sites) and all(c.fn.root == sh.id and c.fn.id != sh.id for c in sites)
        cx.ob("R05.zero-seeded-before-publish", t.fn.id + "|seeded-inside-initializer",
              inside and len(goi) == 1 and not other_pub,
              "the distinguished zero element is inserted outside the OnceCell initializer (after the shard set is "
              "visible to other threads): a thread that interns the zero value during first use gets a second id "
              "for it", t.fn.loc(t.line))

    # ---- R05.one-shard-function ---------------------------------------------------
    idx_sites = []
    for h in fb.fns.values():
        if h.crate != "intern" or "sharded_set" not in h.file:
            continue
        for s in h.stmts():
            for pl in [s.dst] + s.reads():
                if pl is not None and "shards" in pl.fields() and any(p.startswith("[") for p in pl.proj):
                    idx_sites.append(h)
    idx_ids = sorted({h.id for h in idx_sites})
    cx.floor("R05.one-shard-function shard indexing sites", len(idx_ids), 1)
    for hid in idx_ids:
        cx.ob("R05.one-shard-function", hid + "|indexes-shards", hid.endswith("::hash_and_shard"),
              "shards are indexed outside hash_and_shard (lookups and inserts could disagree on the shard)", hid)
    for nm in ("get", "get_or_insert_lock", "unchecked_insert"):
        h = fb.one(r"intern::sharded_set::ShardedSet::<T, S>::%s$" % nm)
        p = path_without(h, 0, h.return_blocks(), blocks_calling(h, r"ShardedSet::<T, S>::hash_and_shard$"))
        cx.ob("R05.one-shard-function", h.id + "|uses-hash_and_shard", p is None,
              "%s does not select its shard through hash_and_shard" % nm, h.loc())
    hs = [t for t in f.calls() if term_calls(t, r"hash_and_shard$")]
    for i, agg in enumerate(aggs):
        names = agg.j["fields"]
        hop = op_place(agg.ops[names.index("hash")])
        ok = hop is not None and hs and local_flows_from(f, hop.local, lambda d: hasattr(d, "rv") and any(
            p.local == hs[0].dst.local for p in d.reads())) is not None
        cx.ob("R05.one-shard-function", f.id + "|lock-carries-computed-hash", bool(ok),
              "the hash stored in the InsertLock is not the one computed for the lookup", f.loc(agg.line))
    il = fb.one(r"intern::sharded_set::InsertLock::<'_, T, S>::insert$")
    ti = [t for t in il.calls() if term_calls(t, r"RawTable::<T, A>::insert$|RawTable::<T>::insert$")]
    ok = False
    if len(ti) == 1:
        a = op_place(ti[0].args[1])
        ok = a is not None and (a.last_field() == "hash" or local_flows_from(
            il, a.local, lambda d: hasattr(d, "rv") and any(p.last_field() == "hash" for p in d.reads())) is not None)
    cx.ob("R05.one-shard-function", il.id + "|inserts-with-stored-hash", ok,
          "InsertLock::insert must insert under the hash computed by the lookup", il.loc())

    # ---- R05.ord -----------------------------------------------------------------------
    for ty, acc in (("StringId", r"StringId::as_str$"), ("BytesId", r"::get$")):
        hs_ = fb.methods("cmp", impl_for=r"string::%s$" % ty, trait=r"cmp::Ord$")
        if len(hs_) != 1:
            raise AnchorError("Ord for %s not found" % ty)
        h = hs_[0]
        accs = [t for t in h.calls() if term_calls(t, acc)]
        cmpc = [t for t in h.calls() if re.search(r"Ord>?::cmp$", t.declared or "")]
        ok = len(accs) >= 2 and cmpc and all(
            any(derives_from_local(h, op_place(a).local, x.dst.local) for x in accs) for a in cmpc[-1].args[:2]
            if op_place(a) is not None)
        cx.ob("R05.ord", h.id + "|compares-contents", bool(ok),
              "ordering of %s must compare the interned contents (not the numeric ids)" % ty, h.loc())

    # ---- R05.serdes-tables ---------------------------------------------------------------
    ser = fb.methods("serialize", impl_for=r"InternSerdes<Id>", trait=r"Serialize$")
    de = fb.methods("deserialize", impl_for=r"InternSerdes<Id>", trait=r"Deserialize")
    if len(ser) != 1 or len(de) != 1:
        raise AnchorError("InternSerdes serialize/deserialize not found (%d/%d)" % (len(ser), len(de)))
    sfns = fb.with_closures(ser[0])
    dfns = fb.with_closures(de[0])
    inc = [s for h in sfns for s in stores_to_field(h, "next_index")]
    plus1 = [s for h in sfns for s in h.stmts() if s.rv == "binop" and s.j["binop"].startswith("Add") and any(
        (op_const(o) or {}).get("v") == "1" for o in s.ops)]
    cx.ob("R05.serdes-tables", ser[0].id + "|one-index-per-value", len(inc) == 1 and len(plus1) >= 1,
          "the serializer must advance next_index exactly once per serialized Value", ser[0].loc())
    # back-reference numbering is post-order on both sides: the serializer takes its index only after the
    # value (and everything nested in it) has been serialized; the deserializer pushes after the value has
    # been deserialized and interned
    for h in sfns:
        sts = stores_to_field(h, "next_index")
        vals = [t for t in h.calls() if re.search(r"::serialize$", t.callee or t.declared or "") and "InternEnum" in (t.callee or t.declared or "")]
        for x in sts:
            nested = [t for t in vals if h.dominates(t.bb, x.bb)]
            cx.ob("R05.serdes-tables", ser[0].id + "|index-taken-after-value-serialized", bool(nested),
                  "the serializer reserves a back-reference index before the value is serialized (pre-order) while "
                  "the deserializer numbers values after deserializing them (post-order): nested ids of the same "
                  "type resolve to the wrong values", h.loc(x.line))
    pushes = [t for h in dfns for t in h.calls() if term_calls(t, r"vec::Vec::<T, A>::push$")]
    for t in pushes:
        h = t.fn
        root = de[0]
        interns = [c for c in root.calls() if term_calls(c, r"InternId::intern$")]
        cx.ob("R05.serdes-tables", de[0].id + "|push-after-intern", len(interns) == 1,
              "the deserializer must intern the value before recording its back-reference", de[0].loc())
    cx.ob("R05.serdes-tables", de[0].id + "|one-push-per-value", len(pushes) == 1,
          "the deserializer must push exactly one back-reference per deserialized Value", de[0].loc())
    s_tab = [t for h in sfns for t in h.calls() if term_calls(t, r"PerInternIdVec::<T>::for_id(_mut)?$")]
    d_tab = [t for h in dfns for t in h.calls() if term_calls(t, r"PerInternIdVec::<T>::for_id(_mut)?$")]
    cx.ob("R05.serdes-tables", "per-type-table", len(s_tab) >= 1 and len(d_tab) >= 1,
          "both sides must index their tables through PerInternIdVec::for_id{,_mut}::<Id>", ser[0].loc())
