"""C24 — Each iso literal resolves to its own generated overload."""
import re, os
from rulelib import *
from factbase import AnchorError, op_place, op_const
import templates

TITLE = "Each iso literal resolves to its own generated overload"
TECHNIQUE = "constant-table / regular-language rules: the lexer's skip class and the parser's header token sequence (syn + MIR) against the overload text generated into iso.ts"
EXPLANATION = (
    "The TypeScript overload that gives an iso literal its type is selected by template-literal matching of the "
    "literal's text against `Whitespace<T> extends '<keyword> <Type>.<name>${string}'`. Decided: (1) every "
    "character the iso lexer skips before the first token is a member of the generated WhitespaceCharacter union "
    "(otherwise a literal the compiler accepts - e.g. one starting with \\r\\n - matches no overload); (2) the header "
    "shapes the parser accepts (any run of skipped characters between keyword, type, '.', name) are compared with "
    "the single shape the generated pattern can match (one space, no space around '.'); (3) the overload lists are "
    "emitted longest-prefix-first: the sort comparator tests starts_with in both directions before comparing, so "
    "that `Query.Foo` does not shadow `Query.FooBar`. TypeScript's overload resolution itself is not executed.")
ASSUMPTIONS = ["TypeScript template literal types match `${string}` greedily-enough that a pattern P${string} accepts exactly the strings starting with P"]


def skip_class(syn):
    for it in syn["items"]:
        if it["kind"] == "enum" and it["path"].endswith("IsographLangTokenKind"):
            for v in it["variants"]:
                for a in v["attrs"]:
                    if a["name"] == "regex" and len(a["args"]) >= 2 and isinstance(a["args"][1], dict) and "skip" in a["args"][1].get("expr", ""):
                        return a["args"][0]
    raise AnchorError("lexer skip class not found")


def class_chars(rx):
    m = re.fullmatch(r"\[(.*)\]\+?", rx)
    if not m:
        raise AnchorError("skip class is not a simple character class: %r" % rx)
    body = m.group(1)
    out = []
    i = 0
    esc = {"t": "\t", "r": "\r", "n": "\n", "f": "\f", "v": "\v"}
    while i < len(body):
        c = body[i]
        if c == "\\":
            n = body[i + 1]
            if n == "u":
                if body[i + 2] == "{":
                    j = body.index("}", i)
                    out.append(chr(int(body[i + 3:j], 16)))
                    i = j + 1
                    continue
                out.append(chr(int(body[i + 2:i + 6], 16)))
                i += 6
                continue
            out.append(esc.get(n, n))
            i += 2
            continue
        out.append(c)
        i += 1
    return out


def run(cx):
    syn = cx.syn()
    fb = cx.mir("artifact_content", "isograph_lang_parser")
    skip = class_chars(skip_class(syn))
    cx.floor("R24.whitespace-table characters skipped by the iso lexer", len(skip), 3)
    # the WhitespaceCharacter union in the generated text
    T = templates.Templates(syn, os.environ.get("VERIF_REPO", "/repo"))
    gen_text = None
    f = fb.one(r"artifact_content::iso_overload_file::build_iso_overload_artifact$")
    for s in f.stmts():
        for o in s.ops:
            c = op_const(o)
            if c and "str" in c and "WhitespaceCharacter" in c["str"]:
                gen_text = c["str"]
    for t in f.calls():
        for o in t.args:
            c = op_const(o)
            if c and "str" in c and "WhitespaceCharacter" in c["str"]:
                gen_text = c["str"]
    if gen_text is None:
        raise AnchorError("generated WhitespaceCharacter type not found in build_iso_overload_artifact")
    m = re.search(r"type WhitespaceCharacter = ([^;]+);", gen_text)
    members = re.findall(r"'((?:\\.|[^'\\])*)'", m.group(1))
    js_unescape = {"\\t": "\t", "\\n": "\n", "\\r": "\r", "\\f": "\f", "\\v": "\v", " ": " "}
    ws = set()
    for x in members:
        if x in js_unescape:
            ws.add(js_unescape[x])
        elif re.fullmatch(r"\\u[0-9A-Fa-f]{4}", x):
            ws.add(chr(int(x[2:], 16)))
        else:
            ws.add(x)
    for ch in skip:
        cx.ob("R24.whitespace-table", "skip-char-U+%04X-in-WhitespaceCharacter" % ord(ch), ch in ws,
              "the iso lexer skips U+%04X before the first token, but the generated WhitespaceCharacter union (%s) does "
              "not contain it: a literal that starts with this character is compiled but matches no overload in iso.ts" % (
                  ord(ch), m.group(1).strip()), f.loc())
    # ---- R24.header-separators ---------------------------------------------------------------------
    pats = []
    for mac in T.macros_in(r"iso_overload_file\.rs$"):
        if mac["template"] and re.match(r"(entrypoint|field|pointer|\{\}) \{\}\.\{\}$", mac["template"]):
            pats.append(mac["template"])
    cx.floor("R24.header-separators overload header templates", len(pats), 2)
    # gaps of the generated pattern: the literal pieces between the placeholders
    gaps_pattern = set()
    for p_ in pats:
        pieces = re.split(r"\{\}", p_ if p_.startswith("{}") else "{}" + p_[p_.index(" "):])
        gaps_pattern.add(tuple(pieces[1:3]))
    if len(gaps_pattern) != 1:
        raise AnchorError("overload header templates disagree: %s" % pats)
    gap_kw_type, gap_type_name = list(gaps_pattern)[0]
    # gaps the parser accepts: the header is parsed as separate tokens (pairing table from MIR), between which the
    # lexer skips any run of its skip class; two identifier tokens need at least one skipped character
    pf = cx.mir("isograph_lang_parser")
    from props.parser_shared import token_legend_pairs
    kinds = {st: k for k, st in token_legend_pairs(pf)}
    need = {"ST_KEYWORD_DECLARATION": "Identifier", "ST_SERVER_OBJECT_TYPE": "Identifier", "ST_DOT": "Period",
            "ST_CLIENT_SELECTABLE_NAME": "Identifier"}
    for st, k in need.items():
        if kinds.get(st) != k:
            raise AnchorError("parser pairing %s -> %s not found (have %s)" % (st, k, kinds.get(st)))
    skipset = set(skip)
    gaps = [("keyword-type", "+", gap_kw_type), ("type-dot", "*", gap_type_name.split(".")[0]), ("dot-name", "*", gap_type_name.split(".")[-1])]
    for name, mult, lit in gaps:
        # L(parser gap) = skip{mult};  L(pattern gap) = {lit};  inclusion holds iff the parser's language is that single word
        parser_words_ok = (mult == "+" and len(lit) == 1 and skipset == {lit}) or (mult == "*" and False)
        cx.ob("R24.header-separators", "gap-%s|parser-language-included-in-pattern" % name, parser_words_ok,
              "between %s the parser accepts [skip class]%s (%d different characters, any run length) but the generated "
              "overload pattern only matches %r: a literal written with other spacing compiles and gets no overload" % (
                  name.replace("-", " and "), mult, len(skipset), lit), f.loc())
    # ---- R24.prefix-order --------------------------------------------------------------------------------
    for nm in ("sorted_user_written_types", "sorted_entrypoints"):
        g = fb.one(r"artifact_content::iso_overload_file::%s$" % nm)
        cmps = []
        for c in fb.closures_of(g):
            bodies = [c] + list(fb.callees(c).values())
            n_sw = sum(1 for b_ in bodies for t in b_.calls() if re.search(r"core::str::<impl str>::starts_with$", t.callee or ""))
            has_cmp = any(re.search(r"Ord>?::cmp$", t.declared or t.callee or "") for b_ in bodies for t in b_.calls())
            if n_sw >= 2 and has_cmp:
                cmps.append(c)
        sorts = [t for t in g.calls() if re.search(r"slice::<impl \[T\]>::sort_by$", t.callee or "")]
        cx.ob("R24.prefix-order", g.id + "|longest-prefix-first", bool(cmps) and bool(sorts),
              "the overload list is not sorted with a comparator that checks starts_with in both directions: "
              "`Type.Foo` can shadow `Type.FooBar`", g.loc())
