"""C24 — Each iso literal resolves to its own generated overload."""
import re, os
from rulelib import *
from factbase import AnchorError, op_place, op_const
import templates

TITLE = "Each iso literal resolves to its own generated overload"
TECHNIQUE = "constant-table / regular-language rules: the lexer's skip class and the parser's header token sequence (syn + MIR) against the overload text generated into iso.ts"
EXPLANATION = (
    "The TypeScript overload that gives an iso literal its type is selected by template-literal matching of the "
    "literal's text against `Whitespace<T> extends '<keyword> <Type>.<name>${string}'`. Decided: (1) every "
    "character the iso lexer skips before the first token is a member of the generated WhitespaceCharacter union "
    "(otherwise a literal the compiler accepts - e.g. one starting with \\r\\n - matches no overload); (2) the header "
    "shapes the parser accepts (any run of skipped characters between keyword, type, '.', name) are compared with "
    "the single shape the generated pattern can match (one space, no space around '.'); (3) the overload lists are "
    "emitted longest-prefix-first: the sort comparator tests starts_with in both directions before comparing, so "
    "that `Query.Foo` does not shadow `Query.FooBar`. TypeScript's overload resolution itself is not executed.")
ASSUMPTIONS = ["TypeScript template literal types match `${string}` greedily-enough that a pattern P${string} accepts exactly the strings starting with P"]


def skip_class(syn):
    for it in syn["items"]:
        if it["kind"] == "enum" and it["path"].endswith("IsographLangTokenKind"):
            for v in it["variants"]:
                for a in v["attrs"]:
                    if a["name"] == "regex" and len(a["args"]) >= 2 and isinstance(a["args"][1], dict) and "skip" in a["args"][1].get("expr", ""):
                        return a["args"][0]
    raise AnchorError("lexer skip class not found")


def skip_alphabet(syn):
    """Characters that can start a run the iso lexer skips: the members of every `logos::skip` class, and the first
    literal character of any other skipped pattern (e.g. `#` of a comment rule)."""
    out = []
    n = 0
    for it in syn["items"]:
        if it["kind"] == "enum" and it["path"].endswith("IsographLangTokenKind"):
            for v in it["variants"]:
                for a in v["attrs"]:
                    if a["name"] in ("regex", "token") and len(a["args"]) >= 2 and isinstance(a["args"][1], dict) and "skip" in a["args"][1].get("expr", ""):
                        n += 1
                        rx = a["args"][0]
                        if re.fullmatch(r"\[(.*)\]\+?", rx) and a["name"] == "regex":
                            out += class_chars(rx)
                        elif rx and rx[0] not in "[(.\\":
                            out.append(rx[0])
                        else:
                            raise AnchorError("cannot determine the first characters of skipped pattern %r" % rx)
    if not n:
        raise AnchorError("lexer skip rules not found")
    return sorted(set(out))


def class_chars(rx):
    m = re.fullmatch(r"\[(.*)\]\+?", rx)
    if not m:
        raise AnchorError("skip class is not a simple character class: %r" % rx)
    body = m.group(1)
    out = []
    i = 0
    esc = {"t": "\t", "r": "\r", "n": "\n", "f": "\f", "v": "\v"}
    while i < len(body):
        c = body[i]
        if c == "\\":
            n = body[i + 1]
            if n == "u":
                if body[i + 2] == "{":
                    j = body.index("}", i)
                    out.append(chr(int(body[i + 3:j], 16)))
                    i = j + 1
                    continue
                out.append(chr(int(body[i + 2:i + 6], 16)))
                i += 6
                continue
            out.append(esc.get(n, n))
            i += 2
            continue
        out.append(c)
        i += 1
    return out


JS_UNESCAPE = {"t": "\t", "n": "\n", "r": "\r", "f": "\f", "v": "\v", "\\": "\\", "'": "'"}


def js_string(x):
    out, i = "", 0
    while i < len(x):
        if x[i] == "\\" and i + 1 < len(x):
            n = x[i + 1]
            if n == "u":
                out += chr(int(x[i + 2:i + 6], 16))
                i += 6
                continue
            out += JS_UNESCAPE.get(n, n)
            i += 2
            continue
        out += x[i]
        i += 1
    return out


def ts_aliases(text):
    """-> (unions: name -> set of strings, conds: name -> (class alias, then alias, else alias or None))"""
    unions, conds = {}, {}
    for m in re.finditer(r"type\s+(\w+)\s*=\s*((?:'(?:\\.|[^'\\])*'\s*\|?\s*)+);", text):
        unions[m.group(1)] = {js_string(x) for x in re.findall(r"'((?:\\.|[^'\\])*)'", m.group(2))}
    for m in re.finditer(r"type\s+(\w+)<(\w+)>\s*=\s*\2\s+extends\s+`\$\{(\w+)\}\$\{infer\s+(\w+)\}`\s*\?\s*(\w+)<\4>\s*:\s*(?:(\w+)<\2>|\2)\s*;", text):
        conds[m.group(1)] = (m.group(3), m.group(5), m.group(6))
    return unions, conds


def stripped_language_gaps(entry, unions, conds, skip, maxlen=3):
    """Words over the skip alphabet (up to maxlen, enough for the one- and two-character members seen in unions) that the
    conditional-type automaton cannot strip completely. NFA: state = (alias, pending suffix); a conditional alias may
    consume any member of its class and continue in its then-alias, or fall to its else-alias; falling off the end
    (else = the input itself) accepts. Exhaustive over skip^<=maxlen, then closed by a subset-construction fixpoint."""
    def eps(states):
        out, work = set(states), list(states)
        while work:
            a, pend = work.pop()
            if pend == "" and a in conds and conds[a][2] is not None:
                n = (conds[a][2], "")
                if n not in out:
                    out.add(n)
                    work.append(n)
        return out

    def step(states, ch):
        nxt = set()
        for a, pend in states:
            if pend:
                if pend[0] == ch:
                    nxt.add((a, pend[1:]))
                continue
            if a in conds:
                cls, then, _ = conds[a]
                for w in unions.get(cls, ()):
                    if w and w[0] == ch:
                        nxt.add((then, w[1:]))
        return eps(nxt)

    def accepting(states):
        # a state accepts when nothing is pending and its else-chain ends in the input itself
        return any(pend == "" and a in conds for a, pend in states)

    start = frozenset(eps({(entry, "")}))
    seen, work, bad = {start: ""}, [start], []
    while work:
        S = work.pop()
        for ch in skip:
            N = frozenset(step(S, ch))
            w = seen[S] + ch
            if not accepting(N):
                bad.append(w)
                continue
            if N not in seen:
                seen[N] = w
                work.append(N)
    return bad


def run(cx):
    syn = cx.syn()
    fb = cx.mir("artifact_content", "isograph_lang_parser")
    skip = skip_alphabet(syn)
    cx.floor("R24.whitespace-table characters skipped by the iso lexer", len(skip), 3)
    # the whitespace-stripping type in the generated text, read as an automaton
    T = templates.Templates(syn, os.environ.get("VERIF_REPO", "/repo"))
    gen_text = None
    f = fb.one(r"artifact_content::iso_overload_file::build_iso_overload_artifact$")
    for c in [op_const(o) for s_ in f.stmts() for o in s_.ops] + [op_const(o) for t in f.calls() for o in t.args]:
        if c and "str" in c and "MatchesWhitespaceAndString" in c["str"] and "extends `${TString}${string}`" in c["str"]:
            gen_text = c["str"]
    if gen_text is None:
        raise AnchorError("generated MatchesWhitespaceAndString type not found in build_iso_overload_artifact")
    m = re.search(r"=\s*(\w+)<T>\s+extends\s+`\$\{TString\}\$\{string\}`", gen_text)
    if not m:
        raise AnchorError("cannot find the stripping type applied to T in MatchesWhitespaceAndString")
    entry = m.group(1)
    unions, conds = ts_aliases(gen_text)
    if entry not in conds:
        raise AnchorError("stripping type %s is not a recursive conditional type" % entry)
    missing = stripped_language_gaps(entry, unions, conds, skip)
    cx.extra["whitespace_type"] = {"entry": entry, "unions": {k: sorted(v) for k, v in unions.items()}, "conditionals": conds}
    for ch in skip:
        bad = [w for w in missing if w.endswith(ch)]
        cx.ob("R24.whitespace-table", "skip-char-U+%04X-in-WhitespaceCharacter" % ord(ch), not bad,
              "the iso lexer skips any run of its skip class before the first token, but the generated %s<T> type does not "
              "strip %s: a literal that starts this way is compiled but matches no overload in iso.ts" % (
                  entry, [repr(w) for w in bad[:3]]), f.loc())
    # ---- R24.header-separators ---------------------------------------------------------------------
    pats = []
    for mac in T.macros_in(r"iso_overload_file\.rs$"):
        if mac["template"] and re.match(r"(entrypoint|field|pointer|\{\}) \{\}\.\{\}$", mac["template"]):
            pats.append(mac["template"])
    cx.floor("R24.header-separators overload header templates", len(pats), 2)
    # gaps of the generated pattern: the literal pieces between the placeholders
    gaps_pattern = set()
    for p_ in pats:
        pieces = re.split(r"\{\}", p_ if p_.startswith("{}") else "{}" + p_[p_.index(" "):])
        gaps_pattern.add(tuple(pieces[1:3]))
    if len(gaps_pattern) != 1:
        raise AnchorError("overload header templates disagree: %s" % pats)
    gap_kw_type, gap_type_name = list(gaps_pattern)[0]
    # gaps the parser accepts: the header is parsed as separate tokens (pairing table from MIR), between which the
    # lexer skips any run of its skip class; two identifier tokens need at least one skipped character
    pf = cx.mir("isograph_lang_parser")
    from props.parser_shared import token_legend_pairs
    kinds = {st: k for k, st in token_legend_pairs(pf)}
    need = {"ST_KEYWORD_DECLARATION": "Identifier", "ST_SERVER_OBJECT_TYPE": "Identifier", "ST_DOT": "Period",
            "ST_CLIENT_SELECTABLE_NAME": "Identifier"}
    for st, k in need.items():
        if kinds.get(st) != k:
            raise AnchorError("parser pairing %s -> %s not found (have %s)" % (st, k, kinds.get(st)))
    skipset = set(skip)
    gaps = [("keyword-type", "+", gap_kw_type), ("type-dot", "*", gap_type_name.split(".")[0]), ("dot-name", "*", gap_type_name.split(".")[-1])]
    for name, mult, lit in gaps:
        # L(parser gap) = skip{mult};  L(pattern gap) = {lit};  inclusion holds iff the parser's language is that single word
        parser_words_ok = (mult == "+" and len(lit) == 1 and skipset == {lit}) or (mult == "*" and False)
        cx.ob("R24.header-separators", "gap-%s|parser-language-included-in-pattern" % name, parser_words_ok,
              "between %s the parser accepts [skip class]%s (%d different characters, any run length) but the generated "
              "overload pattern only matches %r: a literal written with other spacing compiles and gets no overload" % (
                  name.replace("-", " and "), mult, len(skipset), lit), f.loc())
    # ---- R24.prefix-order --------------------------------------------------------------------------------
    for nm in ("sorted_user_written_types", "sorted_entrypoints"):
        g = fb.one(r"artifact_content::iso_overload_file::%s$" % nm)
        cmps = []
        for c in fb.closures_of(g):
            bodies = [c] + list(fb.callees(c).values())
            n_sw = sum(1 for b_ in bodies for t in b_.calls() if re.search(r"core::str::<impl str>::starts_with$", t.callee or ""))
            has_cmp = any(re.search(r"Ord>?::cmp$", t.declared or t.callee or "") for b_ in bodies for t in b_.calls())
            if n_sw >= 2 and has_cmp:
                cmps.append(c)
        sorts = [t for t in g.calls() if re.search(r"slice::<impl \[T\]>::sort_by$", t.callee or "")]
        cx.ob("R24.prefix-order", g.id + "|longest-prefix-first", bool(cmps) and bool(sorts),
              "the overload list is not sorted with a comparator that checks starts_with in both directions: "
              "`Type.Foo` can shadow `Type.FooBar`", g.loc())
    # ---- R24.prefix-order: the comparator itself is "prefix-longer-first, otherwise plain string order" ---------
    sf = [g for g in fb.fns.values() if g.crate == "artifact_content" and g.file.endswith("iso_overload_file.rs")
          and sum(1 for t in g.calls() if re.search(r"core::str::<impl str>::starts_with$", t.callee or "")) >= 2]
    cx.floor("R24.prefix-order comparators", len(sf), 1)

    def root(g, o, depth=0):
        pl = op_place(o)
        if pl is None or depth > 8:
            return ("?",)
        if 1 <= pl.local <= g.argc:
            return ("param", pl.local)
        ds = local_defs(g, pl.local)
        if len(ds) != 1:
            return ("multi", pl.local)
        d = ds[0]
        if hasattr(d, "rv"):
            if d.rv in ("use", "ref", "copy_for_deref", "cast"):
                src = {"copy": [d.place.local, []]} if d.place is not None else (d.ops[0] if d.ops else None)
                return root(g, src, depth + 1)
            return ("stmt", d.rv)
        if re.search(r"Lookup>?::lookup$|::as_str$|::as_bytes$|Deref>?::deref$|Borrow.*::borrow$|AsRef.*::as_ref$", d.declared or d.callee or ""):
            return root(g, d.args[0], depth + 1)
        return ("call", (d.callee or d.declared or "?").split("::")[-1]) + root(g, d.args[0], depth + 1) if d.args else ("call", d.callee)

    for g in sf:
        sws = [t for t in g.calls() if re.search(r"core::str::<impl str>::starts_with$", t.callee or "")]
        pairs = [(root(g, t.args[0]), root(g, t.args[1])) for t in sws]
        sym = len(pairs) == 2 and pairs[0] == (pairs[1][1], pairs[1][0]) and pairs[0][0] != pairs[0][1] and all(x[0] == "param" for x in pairs[0])
        cx.ob("R24.prefix-order", g.name + "|prefix-tested-both-ways-on-the-two-names", sym,
              "the two starts_with tests are not a.starts_with(b) / b.starts_with(a) on the two compared names (%s)" % (pairs,), g.loc())
        # which Ordering each prefix test yields
        verdicts = []
        for t in sws:
            br = call_bool_branch(g, t)
            v = None
            if br:
                for st in g.blocks[br[0]].stmts:
                    if st.rv == "aggregate" and st.j.get("adt", "").endswith("cmp::Ordering") and st.dst.local == 0:
                        v = st.j["variant"]
            verdicts.append(v)
        longer_first = sym and len(verdicts) == 2 and verdicts[0] == "Less" and verdicts[1] == "Greater" and pairs[0][0] == ("param", 1)
        cx.ob("R24.prefix-order", g.name + "|extension-sorts-before-its-prefix", longer_first,
              "when one name extends the other, the longer one must sort first (a.starts_with(b) => Less, b.starts_with(a) => "
              "Greater); found %s" % verdicts, g.loc())
        cmpc = [t for t in g.calls() if re.search(r"Ord>?::cmp$|Ord for str>::cmp$|PartialOrd.*::partial_cmp$|::then(_with)?$|::reverse$|cmp_by|sort", t.declared or t.callee or "")]
        plain = len(cmpc) == 1 and re.search(r"Ord for str>::cmp$", cmpc[0].callee or "") and cmpc[0].dst is not None and cmpc[0].dst.local == 0 \
            and sym and (root(g, cmpc[0].args[0]), root(g, cmpc[0].args[1])) == (("param", 1), ("param", 2))
        cx.ob("R24.prefix-order", g.name + "|fallback-is-plain-string-order", bool(plain),
              "prefix-longer-first combined with plain str::cmp on the same two names is a total order (strings compared as if "
              "ended by a greatest sentinel); with any other fallback key (%s) the comparator is not transitive for "
              "names related by the case-sensitive prefix test, and sort_by may place `Type.Foo` before `Type.FooBar`" % (
                  [(t.callee or t.declared or "?").split("::")[-1] for t in cmpc]), g.loc())

