"""C12 — Response keys are unique per field+arguments and agree with the runtime."""
import os, re
from rulelib import *
from factbase import AnchorError, op_place, op_const
import sibling, charmap, templates, tsfacts
from props.printer_shared import *
from props import c09

TITLE = "Response keys are unique per field+arguments and agree with the runtime"
TECHNIQUE = "exact char-map interval analysis (MIR) + Rust/TypeScript constant-table cross-check (syn templates vs tokenized cache.ts)"
EXPLANATION = (
    "The compiler (to_alias_str_chunk / get_aliased_mutation_field_name) and the runtime (getArgumentValueChunk / "
    "getNetworkResponseKey in cache.ts) are two implementations of one key function. Decided: (1) the alphabet of "
    "aliases is GraphQL name characters (exact interval analysis of the per-character map, Display alphabets of "
    "the value kinds the parser constructs); (2) the per-character map must be injective on what it lets through "
    "(a replacement constant that is also passed through unchanged makes two different strings collide); (3) per "
    "value kind, the prefix / suffix / separator literals and the split keys are equal on both sides, and an object "
    "with no entries is rendered identically (join of an empty list vs accumulation loops); (4) the sanitising "
    "class agrees in unit: Rust maps per Unicode scalar value, so the TypeScript regex must have the `u` flag. "
    "Numeric formatting agreement (i64 Display vs JS number to string) is not decided.")
ASSUMPTIONS = ["JS /\\W/ without the u flag operates on UTF-16 code units; Rust chars() on scalar values"]

KIND_MAP = {"Variable": "Variable", "Integer": "Literal", "Boolean": "Literal", "Float": "Literal", "Null": "Literal",
            "String": "String", "Enum": "Enum", "Object": "Object"}


def run(cx):
    fb = cx.mir(*PRINTER_CRATES)
    f = c09.rule_alias_alphabet(cx, fb, prop="R12.alphabet")
    # ---- R12.lossy-map -------------------------------------------------------------------
    m = cx.extra.get("alias_char_map")
    if m is not None:
        ident = [(ord(a), ord(b)) for a, b in m["identity"]]
        lossy = [k for k in m["constants"] if any(a <= ord(k) <= b for a, b in ident)]
        cx.ob("R12.lossy-map", f.id + "|replacement-not-in-identity-set", not lossy,
              "characters that are not let through are replaced by %r, which is itself let through unchanged: two "
              "different string arguments (e.g. \"a b\" and \"a_b\") get the same response key" % lossy, f.loc())
    # ---- R12.rust-ts-table ------------------------------------------------------------------
    repo = os.environ.get("VERIF_REPO", "/repo")
    ts_path = os.path.join(repo, "libs/isograph-react/src/core/cache.ts")
    if not os.path.exists(ts_path):
        raise AnchorError("cache.ts not found")
    toks = tsfacts.tokenize(open(ts_path, encoding="utf-8").read())
    body = tsfacts.function_body(toks, "getArgumentValueChunk")
    if body is None:
        raise AnchorError("getArgumentValueChunk not found in cache.ts")
    cases = tsfacts.switch_cases(body)
    cx.floor("R12.rust-ts-table cases of getArgumentValueChunk", len(cases), 5)
    consts = tsfacts.exported_consts(toks)
    # Rust side: literal pieces per variant arm of to_alias_str_chunk
    f, sw = ncv_switch(fb, r"NonConstantValueInner::<TLocation>::to_alias_str_chunk$")
    regs = sibling.arm_regions(f, sw)
    T = templates.Templates(cx.syn(), repo)
    rust = {}
    for mac in T.macros_in(re.escape(f.file) + "$", r"NonConstantValueInner.*to_alias_str_chunk$|to_alias_str_chunk$"):
        if mac["macro"] != "format":
            continue
        phs, cooked, _ = T.placeholders(mac)
        l0 = mac["span"][0]
        if not (f.lo <= l0 <= f.hi):
            continue
        for v, reg in regs.items():
            bodies = [(f, reg)] + [(c, set(range(len(c.blocks)))) for c in sibling.region_closures(fb, f, reg)]
            hit = False
            for g_, rg in bodies:
                for b in rg:
                    t = g_.blocks[b].term
                    if t.op == "call" and term_calls(t, r"fmt::format$") and l0 in (t.callsite_line, t.line,
                                                                                     (t.j.get("sp") or [0] * 6)[5]):
                        hit = True
            if hit:
                rust.setdefault(v, []).append(cooked)
    for c in cx.syn()["calls"]:
        if c["file"] == f.file and c["method"] in ("join",) and f.lo <= c["span"][0] <= f.hi:
            rust.setdefault("Object", []).append("join:" + (c["args"][0].get("str") if c["args"] and "str" in c["args"][0] else "?"))
    null_lit = [op_const(o)["str"] for b in regs.get("Null", []) for s in f.blocks[b].stmts for o in s.ops if op_const(o) and "str" in op_const(o)]
    if null_lit:
        rust.setdefault("Null", []).append(null_lit[0])
    cx.extra["rust_alias_templates"] = rust

    def prefix(pieces):
        for p in pieces or []:
            if not p.startswith("join:"):
                return p.split("\x00")[0]
        return None
    for v, kind in sorted(KIND_MAP.items()):
        if kind not in cases:
            cx.ob("R12.rust-ts-table", "kind-%s|handled-by-runtime" % v, False,
                  "the runtime has no case for argument kind %s" % kind, "libs/isograph-react/src/core/cache.ts")
            continue
        ts_strs = [t[1][1:-1] for t in cases[kind] if t[0] == "str"]
        rp = prefix(rust.get(v))
        if rp is None:
            continue
        if v == "Null":
            ok = rp.startswith(ts_strs[0]) if ts_strs else False
        else:
            ok = bool(ts_strs) and rp == ts_strs[0]
        cx.ob("R12.rust-ts-table", "kind-%s|prefix" % v, ok,
              "the compiler prefixes %s values with %r but the runtime's %s case starts with %r: the response key "
              "computed by the runtime differs from the alias in the query" % (v, rp, kind, ts_strs[:1]), f.loc())
    # object rendering: prefix, entry separator, suffix and the empty object
    obj_ts = cases.get("Object", [])
    ts_strs = [t[1][1:-1] for t in obj_ts if t[0] == "str"]
    ts_ids = [t[1] for t in obj_ts if t[0] == "id"]
    r_obj = rust.get("Object", [])
    r_tpl = [p for p in r_obj if not p.startswith("join:")]
    r_join = [p[5:] for p in r_obj if p.startswith("join:")]
    outer = [p for p in r_tpl if p.startswith("o_")]
    inner = [p for p in r_tpl if not p.startswith("o_")]
    ok = bool(outer) and outer[0] == "o_\x00_c" and ts_strs[:1] == ["o_"] and ts_strs[-1:] == ["_c"]
    cx.ob("R12.rust-ts-table", "Object|prefix-suffix", ok,
          "object arguments are delimited differently by compiler (%r) and runtime (%r)" % (outer, ts_strs), f.loc())
    ok = r_join == ["_"] and "join" in ts_ids and "_" in ts_strs
    cx.ob("R12.rust-ts-table", "Object|entry-separator", ok,
          "object entries are joined with %r by the compiler but the runtime uses %r" % (r_join, ts_strs), f.loc())
    # both sides build the entries with a join: an accumulation loop renders the empty object differently
    # ("o_c" instead of "o__c")
    uses_join = "join" in ts_ids and "map" in ts_ids and not any(t[1] in ("for", "while") for t in obj_ts)
    cx.ob("R12.rust-ts-table", "Object|empty-object-rendering", uses_join and bool(r_join),
          "the runtime no longer renders an object argument as prefix + entries.join(sep) + suffix (loop / "
          "accumulation found): for an empty object the compiler writes `o__c` and the runtime a different key",
          "libs/isograph-react/src/core/cache.ts:%d" % (obj_ts[0][2] if obj_ts else 0))
    ok = inner[:1] == ["\x00__\x00"] and consts.get("THIRD_SPLIT_KEY") == "__" and "THIRD_SPLIT_KEY" in ts_ids
    cx.ob("R12.rust-ts-table", "Object|name-value-separator", ok,
          "object entry name/value separator differs (compiler %r, runtime THIRD_SPLIT_KEY=%r)" % (inner[:1], consts.get("THIRD_SPLIT_KEY")), f.loc())
    # split keys
    arg_tpls = [mac for mac in T.macros_in(re.escape(f.file) + "$", r"ArgumentKeyAndValue::to_alias_str_chunk$|SelectionFieldArgument::to_alias_str_chunk$")]
    second = {T.placeholders(mac)[1] for mac in arg_tpls}
    cx.ob("R12.rust-ts-table", "SECOND_SPLIT_KEY", second == {"\x00___\x00"} and consts.get("SECOND_SPLIT_KEY") == "___",
          "argument name/value separator differs (compiler %r, runtime %r)" % (second, consts.get("SECOND_SPLIT_KEY")), f.loc())
    g = fb.one(r"create_merged_selection_set::get_aliased_mutation_field_name$")
    firsts = [c["args"][0].get("str") for c in cx.syn()["calls"] if c["file"] == g.file and c["method"] == "push_str"
              and g.lo <= c["span"][0] <= g.hi and c["args"] and "str" in c["args"][0]]
    cx.ob("R12.rust-ts-table", "FIRST_SPLIT_KEY", firsts == ["____"] and consts.get("FIRST_SPLIT_KEY") == "____",
          "field/argument separator differs (compiler %r, runtime %r)" % (firsts, consts.get("FIRST_SPLIT_KEY")), g.loc())
    # ---- R12.unit ------------------------------------------------------------------------------
    rx_t = [t for t in cases.get("String", []) if t[0] == "regex"]
    if len(rx_t) != 1:
        raise AnchorError("cache.ts: expected one regex literal in the String case")
    pat, flags = rx_t[0][1].rsplit("/", 1)
    # (not judged) the runtime regex has no `u` flag, so it works on UTF-16 code units while the compiler maps scalar
    # values; this only differs for characters outside the BMP, which the iso lexer rejects inside string
    # literals (StringCharacters stops at U+FFFF) - no accepted input reaches the difference, so no obligation.
    cx.note("cache.ts String case regex %s: flags %r (code-unit semantics; unreachable difference, not judged)" % (rx_t[0][1], flags))
    cx.ob("R12.rust-ts-table", "String|sanitising-class", pat == "/\\W" and "g" in flags and "replaceAll" in [t[1] for t in cases["String"]],
          "the runtime's sanitising regex is %s; the compiler keeps exactly [A-Za-z0-9_]" % rx_t[0][1],
          "libs/isograph-react/src/core/cache.ts:%d" % rx_t[0][2])
