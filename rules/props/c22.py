"""C22 — Formatting preserves meaning and is idempotent."""
import re
from rulelib import *
from factbase import AnchorError, op_place, op_const
from units import Units, return_units, adt_field_units, BYTE, UTF16, ANY
from props import c07

TITLE = "Formatting preserves meaning and is idempotent"
TECHNIQUE = "constant-table rules: the formatter's legend (syn) joined with the parser's (token kind, legend entry) pairing read from MIR; dataflow of the emitted text; unit rule on the edit range"
EXPLANATION = (
    "Claimed for necessary table / dataflow clauses only. The formatter re-emits the literal from the parser's "
    "semantic tokens, so: (1) the only legend entry whose line behaviour removes the token is the comma entry, and "
    "the parser pairs that entry with the Comma token kind only (every other token kind is paired with entries that "
    "keep the token) - the pairing table is read from the constants passed at every parse_token* call site in MIR; "
    "(2) every token consumed from the lexer is recorded (the C07 clause), so nothing is dropped silently; (3) the "
    "text emitted for a kept token is the slice of the literal at that token's own span; (4) indentation is "
    "decreased before and increased after the token that carries the change (symmetric), and the edit range is "
    "computed from the literal's byte range by the UTF-16 position conversion. Re-parse equality and idempotence for "
    "all literals are not decided (they need the grammar's adjacency relation).")
ASSUMPTIONS = ["legend constants are the only IsographSemanticToken values (checked: aggregates of that type occur only in consts)"]


def run(cx):
    syn = cx.syn()
    consts = [c for c in syn["consts"] if c["file"].endswith("semantic_token_legend/mod.rs") and c["name"].startswith("ST_")]
    cx.floor("R22 legend entries", len(consts), 25)
    removing = sorted(c["name"] for c in consts if re.search(r"LineBehavior\s*::\s*Remove", c["expr"]))
    cx.ob("R22.only-comma-removed", "legend|entries-with-Remove", removing == ["ST_COMMA"],
          "legend entries whose line behaviour removes the token: %s (only the comma may be dropped by the formatter; "
          "dropping any other token changes the declaration)" % removing,
          "crates/isograph_lang_types/src/semantic_token_legend/mod.rs")
    # pairing table from the parser's MIR
    fb = cx.mir("isograph_lang_parser", "isograph_lsp")
    pairs = set()
    for f in fb.fns.values():
        if f.crate != "isograph_lang_parser" or "::tests::" in f.id:
            continue
        for t in f.calls():
            if not term_calls(t, r"PeekableLexer::<'source>::(parse_token_of_kind|parse_source_of_kind|parse_string_key_type|parse_token)$"):
                continue
            ks, sts = [], []
            for a in t.args:
                c = op_const(a)
                if c and c.get("variant"):
                    ks.append(c["variant"])
                if c and c.get("uneval"):
                    sts.append(c["uneval"].split("::")[-1])
                p = op_place(a)
                if p is not None:
                    for d in local_defs(f, p.local):
                        if hasattr(d, "rv") and d.rv == "aggregate" and "TokenKind" in d.j.get("adt", ""):
                            ks.append(d.j["variant"])
                        if hasattr(d, "rv") and d.rv == "use":
                            c2 = op_const(d.ops[0])
                            if c2 and c2.get("uneval"):
                                sts.append(c2["uneval"].split("::")[-1])
                            if c2 and c2.get("variant"):
                                ks.append(c2["variant"])
            if ks and sts:
                pairs.add((ks[0], sts[0]))
    cx.floor("R22 (token kind, legend entry) pairs in the parser", len(pairs), 25)
    cx.extra["token_legend_pairs"] = sorted(pairs)
    for k, st in sorted(pairs):
        if st in removing:
            cx.ob("R22.only-comma-removed", "pair|%s-%s" % (k, st), k == "Comma",
                  "a %s token is recorded with the legend entry %s, which the formatter drops" % (k, st),
                  "crates/isograph_lang_parser/src")
        else:
            cx.count()
    comma_pairs = [st for k, st in pairs if k == "Comma"]
    cx.ob("R22.only-comma-removed", "pair|Comma", comma_pairs == ["ST_COMMA"] or not comma_pairs,
          "comma tokens are recorded as %s" % comma_pairs, "crates/isograph_lang_parser/src", nontrivial=False)
    # ---- R22.tokens-complete (the C07 clause) -----------------------------------------------------
    pf = cx.mir("isograph_lang_parser")
    pt = pf.one(r"peekable_lexer::PeekableLexer::<'source>::parse_token$")
    pushes = [b.i for b in pt.blocks if blk_calls(b, r"vec::Vec::<T, A>::push$")]
    p = path_without(pt, 0, pt.return_blocks(), pushes)
    cx.ob("R22.tokens-complete", pt.id + "|records-semantic-token", p is None,
          "a consumed token is not recorded as a semantic token: the formatter, which re-emits the literal from the "
          "recorded tokens, silently drops it", pt.loc())
    nexts = [(f, t) for f in pf.fns.values() for t in f.calls()
             if term_calls(t, r"<logos::Lexer<'source, Token> as std::iter::Iterator>::next$") and "IsographLangTokenKind" in " ".join(t.j.get("atys", []))
             and "::tests::" not in f.id]
    for f, t in nexts:
        cx.ob("R22.tokens-complete", f.id + "|advances-main-lexer", f.name == "parse_token",
              "the lexer is advanced outside parse_token", f.loc(t.line))
    # ---- R22.emits-own-text ---------------------------------------------------------------------------
    fe = [f for f in fb.fns.values() if f.crate == "isograph_lsp" and re.search(r"format::format_extraction", f.id)]
    body = None
    for f in fe:
        if any(term_calls(t, r"string::String::push_str$") for t in f.calls()) and any(
                term_calls(t, r"LineBehavior::should_keep$") for t in f.calls()):
            body = f
    if body is None:
        raise AnchorError("format_extraction body not found")
    keep = [t for t in body.calls() if term_calls(t, r"LineBehavior::should_keep$")]
    tt, ft = call_bool_branch(body, keep[0])
    kept_region = {b for b in range(len(body.blocks)) if body.dominates(tt, b)}
    ps = [t for t in body.calls() if term_calls(t, r"string::String::push_str$") and t.bb in kept_region]
    ok = False
    for t in ps:
        a = op_place(t.args[1])
        d = local_flows_from(body, a.local, lambda d: not hasattr(d, "rv") and term_calls(d, r"Index<I> for str>::index$|Index<.*>>::index$"), 10) if a else None
        if d is not None:
            rng = op_place(d.args[1])
            src = local_flows_from(body, rng.local, lambda x: not hasattr(x, "rv") and term_calls(x, r"Span::as_usize_range$"), 6) if rng else None
            ok = src is not None
    cx.ob("R22.emits-own-text", body.id + "|kept-token-text-is-its-span", ok,
          "the text pushed for a kept token is not the slice of the literal at that token's span", body.loc())
    # a removed token pushes nothing: no push_str of content on the not-kept branch
    # indentation symmetric: one Sub and one Add of 1 on `indent`
    subs = [s for s in body.stmts() if s.rv == "binop" and s.j["binop"].startswith("Sub") and any((op_const(o) or {}).get("v") == "1" for o in s.ops)]
    adds = [s for s in body.stmts() if s.rv == "binop" and s.j["binop"].startswith("Add") and any((op_const(o) or {}).get("v") == "1" for o in s.ops)]
    nxt = blocks_calling(body, r"Iterator>?::next$")
    order_ok = False
    if len(subs) == 1 and len(adds) == 1 and ps:
        order_ok = ps[0].bb in reachable_from(body, subs[0].bb, stop_blocks=nxt) and \
            adds[0].bb in reachable_from(body, ps[0].bb, stop_blocks=nxt) and \
            subs[0].bb not in reachable_from(body, ps[0].bb, stop_blocks=nxt)
    cx.ob("R22.emits-own-text", body.id + "|indent-symmetric", order_ok,
          "Dedent must be applied before and Indent after the token is emitted (once each per token)", body.loc())
    # ---- R22.range-units ---------------------------------------------------------------------------------
    lfns = [f for f in fb.fns.values() if f.crate == "isograph_lsp" and f.file.endswith("format.rs")]
    summ = return_units(fb, lfns)
    fu = adt_field_units(fb, lfns, summ)
    gr = fb.one(r"isograph_lsp::format::get_range_of_extraction$")
    conv = [t for t in gr.calls() if term_calls(t, r"format::char_index_to_position$")]
    u = Units(fb, gr, summ, fu)
    ok = len(conv) == 2 and all(u.op_units(t.args[1]) <= {BYTE} and u.op_units(t.args[1]) for t in conv)
    cx.ob("R22.range-units", gr.id + "|byte-offsets-into-position-conversion", ok,
          "the edit range must be computed from the literal's byte offsets (start, start + len) by the position "
          "conversion", gr.loc())
    ctp = fb.one(r"isograph_lsp::format::char_index_to_position$")
    u2 = Units(fb, ctp, summ, fu)
    pos = [s for s in ctp.stmts() if s.rv == "aggregate" and s.j.get("adt", "").endswith("Position")]
    ok = bool(pos) and all(u2.op_units(s.ops[s.j["fields"].index("character")]) <= {UTF16, ANY} for s in pos)
    cx.ob("R22.range-units", ctp.id + "|utf16-column", ok,
          "the column of the edit range must be counted in UTF-16 code units", ctp.loc())
