"""C22 — Formatting preserves meaning and is idempotent."""
import re
from rulelib import *
from factbase import AnchorError, op_place, op_const
from units import Units, return_units, adt_field_units, BYTE, UTF16, ANY
from props import c07
from props.parser_shared import first_tokens, closure_args

TITLE = "Formatting preserves meaning and is idempotent"
TECHNIQUE = "constant-table rules: the formatter's legend (syn) joined with the parser's (token kind, legend entry) pairing read from MIR; dataflow of the emitted text; unit rule on the edit range"
EXPLANATION = (
    "Claimed for necessary table / dataflow clauses only. The formatter re-emits the literal from the parser's "
    "semantic tokens, so: (1) the only legend entry whose line behaviour removes the token is the comma entry, and "
    "the parser pairs that entry with the Comma token kind only (every other token kind is paired with entries that "
    "keep the token) - the pairing table is read from the constants passed at every parse_token* call site in MIR; "
    "(2) every token consumed from the lexer is recorded (the C07 clause), so nothing is dropped silently; (3) the "
    "text emitted for a kept token is the slice of the literal at that token's own span; (4) indentation is "
    "decreased before and increased after the token that carries the change (symmetric), and the edit range is "
    "computed from the literal's byte range by the UTF-16 position conversion. Re-parse equality and idempotence for "
    "all literals are not decided (they need the grammar's adjacency relation).")
ASSUMPTIONS = ["legend constants are the only IsographSemanticToken values (checked: aggregates of that type occur only in consts)"]


def run(cx):
    syn = cx.syn()
    consts = [c for c in syn["consts"] if c["file"].endswith("semantic_token_legend/mod.rs") and c["name"].startswith("ST_")]
    cx.floor("R22 legend entries", len(consts), 25)
    removing = sorted(c["name"] for c in consts if re.search(r"LineBehavior\s*::\s*Remove", c["expr"]))
    cx.ob("R22.only-comma-removed", "legend|entries-with-Remove", removing == ["ST_COMMA"],
          "legend entries whose line behaviour removes the token: %s (only the comma may be dropped by the formatter; "
          "dropping any other token changes the declaration)" % removing,
          "crates/isograph_lang_types/src/semantic_token_legend/mod.rs")
    # pairing table from the parser's MIR
    fb = cx.mir("isograph_lang_parser", "isograph_lsp")
    pairs = set()
    for f in fb.fns.values():
        if f.crate != "isograph_lang_parser" or "::tests::" in f.id:
            continue
        for t in f.calls():
            if not term_calls(t, r"PeekableLexer::<'source>::(parse_token_of_kind|parse_source_of_kind|parse_string_key_type|parse_token)$"):
                continue
            ks, sts = [], []
            for a in t.args:
                c = op_const(a)
                if c and c.get("variant"):
                    ks.append(c["variant"])
                if c and c.get("uneval"):
                    sts.append(c["uneval"].split("::")[-1])
                p = op_place(a)
                if p is not None:
                    for d in local_defs(f, p.local):
                        if hasattr(d, "rv") and d.rv == "aggregate" and "TokenKind" in d.j.get("adt", ""):
                            ks.append(d.j["variant"])
                        if hasattr(d, "rv") and d.rv == "use":
                            c2 = op_const(d.ops[0])
                            if c2 and c2.get("uneval"):
                                sts.append(c2["uneval"].split("::")[-1])
                            if c2 and c2.get("variant"):
                                ks.append(c2["variant"])
            if ks and sts:
                pairs.add((ks[0], sts[0]))
    cx.floor("R22 (token kind, legend entry) pairs in the parser", len(pairs), 25)
    cx.extra["token_legend_pairs"] = sorted(pairs)
    for k, st in sorted(pairs):
        if st in removing:
            cx.ob("R22.only-comma-removed", "pair|%s-%s" % (k, st), k == "Comma",
                  "a %s token is recorded with the legend entry %s, which the formatter drops" % (k, st),
                  "crates/isograph_lang_parser/src")
        else:
            cx.count()
    comma_pairs = [st for k, st in pairs if k == "Comma"]
    cx.ob("R22.only-comma-removed", "pair|Comma", comma_pairs == ["ST_COMMA"] or not comma_pairs,
          "comma tokens are recorded as %s" % comma_pairs, "crates/isograph_lang_parser/src", nontrivial=False)
    # ---- R22.separator-recreated: commas are dropped, so every delimited item must start a new line ---
    behaviour = {}
    for c in consts:
        m = re.search(r"LineBehavior\s*::\s*(\w+)", c["expr"])
        if m:
            behaviour[c["name"]] = m.group(1)
    par = cx.mir("isograph_lang_parser")
    delim = par.one(r"parse_iso_literal::parse_comma_or_line_break$")
    items = {}
    for f in par.fns.values():
        if f.crate != "isograph_lang_parser":
            continue
        for t in f.calls():
            if term_calls(t, r"parse_iso_literal::parse_delimited_list$"):
                fns = [op_const(a)["fn"] for a in t.args if op_const(a) and op_const(a).get("fn")]
                if delim.id not in fns:
                    continue
                for g in closure_args(par, f, t):
                    items[g.id] = g
                for n in fns:
                    if n != delim.id and n in par.fns:
                        items[n] = par.fns[n]
            elif t.callee == delim.id and f.name != "parse_delimited_list":
                r = par.fns.get(f.root) if f.root else f
                items[r.id] = r
    cx.floor("R22.separator-recreated delimited item parsers", len(items), 4)
    REJECTED = {"parse_up_to_three_dots": "a selection starting with '.' is turned into the fragment-spread diagnostic"}
    NULLABLE = {"parse_directives", "parse_optional_arguments", "parse_optional_selection_set", "parse_optional_description",
                "parse_variable_definitions"}
    memo = {}
    nfirst = 0
    for iid, g in sorted(items.items()):
        firsts = first_tokens(par, g, NULLABLE, REJECTED, memo)
        if not firsts:
            raise AnchorError("no first token found for delimited item parser %s" % iid)
        for kind, st in sorted(firsts):
            nfirst += 1
            b = behaviour.get(st)
            cx.ob("R22.separator-recreated", "%s|first-token-%s-%s" % (g.name if not g.root else par.fns[g.root].name + "::closure", kind, st),
                  b in ("StartsNewLine", "IsOwnLine"),
                  "items parsed by %s are separated by a comma or a line break; the formatter drops commas, so the "
                  "first token of an item must start a new line, but it is recorded as %s whose line behaviour is %s: "
                  "two such items are glued together and the formatted literal no longer parses" % (g.name, st, b),
                  g.loc(g.lo))
    cx.floor("R22.separator-recreated first tokens", nfirst, 4)
    # ---- R22.tokens-complete (the C07 clause) -----------------------------------------------------
    pf = cx.mir("isograph_lang_parser")
    pt = pf.one(r"peekable_lexer::PeekableLexer::<'source>::parse_token$")
    pushes = [b.i for b in pt.blocks if blk_calls(b, r"vec::Vec::<T, A>::push$")]
    p = path_without(pt, 0, pt.return_blocks(), pushes)
    cx.ob("R22.tokens-complete", pt.id + "|records-semantic-token", p is None,
          "a consumed token is not recorded as a semantic token: the formatter, which re-emits the literal from the "
          "recorded tokens, silently drops it", pt.loc())
    nexts = [(f, t) for f in pf.fns.values() for t in f.calls()
             if term_calls(t, r"<logos::Lexer<'source, Token> as std::iter::Iterator>::next$") and "IsographLangTokenKind" in " ".join(t.j.get("atys", []))
             and "::tests::" not in f.id]
    for f, t in nexts:
        cx.ob("R22.tokens-complete", f.id + "|advances-main-lexer", f.name == "parse_token",
              "the lexer is advanced outside parse_token", f.loc(t.line))
    # ---- R22.emits-own-text ---------------------------------------------------------------------------
    fe = [f for f in fb.fns.values() if f.crate == "isograph_lsp" and re.search(r"format::format_extraction", f.id)]
    body = None
    for f in fe:
        if any(term_calls(t, r"string::String::push_str$") for t in f.calls()) and any(
                term_calls(t, r"LineBehavior::should_keep$") for t in f.calls()):
            body = f
    if body is None:
        raise AnchorError("format_extraction body not found")
    keep = [t for t in body.calls() if term_calls(t, r"LineBehavior::should_keep$")]
    tt, ft = call_bool_branch(body, keep[0])
    kept_region = {b for b in range(len(body.blocks)) if body.dominates(tt, b)}
    ps = [t for t in body.calls() if term_calls(t, r"string::String::push_str$") and t.bb in kept_region]
    ok = False
    for t in ps:
        a = op_place(t.args[1])
        d = local_flows_from(body, a.local, lambda d: not hasattr(d, "rv") and term_calls(d, r"Index<I> for str>::index$|Index<.*>>::index$"), 10) if a else None
        if d is not None:
            rng = op_place(d.args[1])
            src = local_flows_from(body, rng.local, lambda x: not hasattr(x, "rv") and term_calls(x, r"Span::as_usize_range$"), 6) if rng else None
            ok = src is not None
    cx.ob("R22.emits-own-text", body.id + "|kept-token-text-is-its-span", ok,
          "the text pushed for a kept token is not the slice of the literal at that token's span", body.loc())
    # ---- R22.removed-token-inert: a dropped token neither emits text nor changes the layout state ---------
    nxt0 = blocks_calling(body, r"Iterator>?::next$")
    in_loop = set()
    for n in nxt0:
        after = reachable_from(body, n)
        in_loop |= {b for b in after if n in body.reachable(b) and b != n}
    keep_true = []
    for k in keep:
        br = call_bool_branch(body, k)
        if br:
            keep_true.append(br[0])
    lasts = {i for i in range(len(body.j["locals"])) if body.local_name(i) == "last_line_behavior"}
    if not lasts:
        raise AnchorError("format_extraction: local last_line_behavior not found")
    effects = []
    for b in sorted(in_loop):
        blk = body.blocks[b]
        if blk_calls(blk, r"string::String::push(_str)?$|format::push_indented_line_break$"):
            effects.append((b, "emits text", blk.term.line))
        for st in blk.stmts:
            if st.dst is not None and st.dst.local in lasts and not st.dst.proj:
                effects.append((b, "updates last_line_behavior", st.line))
    cx.floor("R22.removed-token-inert layout effects in the token loop", len(effects), 4)
    for b, what, line in effects:
        guarded = any(body.dominates(tb, b) for tb in keep_true)
        cx.ob("R22.removed-token-inert", "%s|%s#%d" % ("format_extraction", what.replace(" ", "-"), sum(1 for e in effects if e[1] == what and e[0] < b)),
              guarded,
              "the formatter %s for a token that it drops (should_keep() is false): the result then depends on whether "
              "an optional comma was written, so formatting the formatted text again gives a different result "
              "(e.g. `},` leaves a whitespace-only line)" % what, body.loc(line))
    # indentation symmetric: one Sub and one Add of 1 on `indent`
    subs = [s for s in body.stmts() if s.rv == "binop" and s.j["binop"].startswith("Sub") and any((op_const(o) or {}).get("v") == "1" for o in s.ops)]
    adds = [s for s in body.stmts() if s.rv == "binop" and s.j["binop"].startswith("Add") and any((op_const(o) or {}).get("v") == "1" for o in s.ops)]
    nxt = blocks_calling(body, r"Iterator>?::next$")
    order_ok = False
    if len(subs) == 1 and len(adds) == 1 and ps:
        order_ok = ps[0].bb in reachable_from(body, subs[0].bb, stop_blocks=nxt) and \
            adds[0].bb in reachable_from(body, ps[0].bb, stop_blocks=nxt) and \
            subs[0].bb not in reachable_from(body, ps[0].bb, stop_blocks=nxt)
    cx.ob("R22.emits-own-text", body.id + "|indent-symmetric", order_ok,
          "Dedent must be applied before and Indent after the token is emitted (once each per token)", body.loc())
    # ---- R22.range-units ---------------------------------------------------------------------------------
    lfns = [f for f in fb.fns.values() if f.crate == "isograph_lsp" and f.file.endswith("format.rs")]
    summ = return_units(fb, lfns)
    fu = adt_field_units(fb, lfns, summ)
    gr = fb.one(r"isograph_lsp::format::get_range_of_extraction$")
    conv = [t for t in gr.calls() if term_calls(t, r"format::char_index_to_position$")]
    u = Units(fb, gr, summ, fu)
    ok = len(conv) == 2 and all(u.op_units(t.args[1]) <= {BYTE} and u.op_units(t.args[1]) for t in conv)
    cx.ob("R22.range-units", gr.id + "|byte-offsets-into-position-conversion", ok,
          "the edit range must be computed from the literal's byte offsets (start, start + len) by the position "
          "conversion", gr.loc())
    ctp = fb.one(r"isograph_lsp::format::char_index_to_position$")
    u2 = Units(fb, ctp, summ, fu)
    pos = [s for s in ctp.stmts() if s.rv == "aggregate" and s.j.get("adt", "").endswith("Position")]
    ok = bool(pos) and all(u2.op_units(s.ops[s.j["fields"].index("character")]) <= {UTF16, ANY} for s in pos)
    cx.ob("R22.range-units", ctp.id + "|utf16-column", ok,
          "the column of the edit range must be counted in UTF-16 code units", ctp.loc())
