"""C17 — A failed compile leaves the artifact directory untouched."""
import re
from rulelib import *
from factbase import AnchorError, op_place, op_const
from props.fs_shared import *

TITLE = "A failed compile leaves the artifact directory untouched"
TECHNIQUE = "who-may-call rule over resolved std::fs mutators + dominance of validation over planning/applying (MIR)"
EXPLANATION = (
    "Every call of a file-system mutator (fs::write, remove_file, remove_dir_all, create_dir_all, rename, copy, "
    "File::create, OpenOptions) in the compiler crates is located from the resolved callees in MIR and must lie in "
    "apply_file_system_operations or a private helper that only it calls (one reviewed exception: create_config creates empty directories while the "
    "configuration is loaded). In compile(), planning and applying file operations are dominated by the success "
    "continuation of get_artifact_path_and_content, and inside that function artifact generation is dominated by "
    "the success continuation of validate_entire_schema; the applier is called from compile() only. Together: no "
    "path reaches a file-system mutation unless validation of the whole schema succeeded. I/O failure half-way "
    "through applying (C19) is not part of this property.")
ASSUMPTIONS = ["all file-system effects go through std::fs (no libc / external process) in the compiler crates"]

REVIEWED = {
    "isograph_config::compilation_options::create_config":
        "create_dir_all of the artifact / project root directories while the config is loaded: creates empty "
        "directories only, before any compile, touches no artifact file",
}


def run(cx):
    fb = cx.mir(*COMPILER_CRATES)
    sites = fs_mutation_sites(fb)
    cx.floor("R17.owner file-system mutation call sites", len(sites), 5)
    applier = fb.one(r"isograph_compiler::write_artifacts::apply_file_system_operations$")
    cone = owner_cone(fb, [applier.id], crates={"isograph_compiler"})
    cx.extra["applier_cone"] = sorted(cone)
    for t in sites:
        f = t.fn
        owner = f.root or f.id
        ok = owner in cone or owner in REVIEWED
        cx.ob("R17.owner", "%s|%s" % (owner, (t.callee or t.declared).split("::")[-1]), ok,
              "the file system is mutated outside apply_file_system_operations: a compile that later fails (or "
              "never validated) has already touched the artifact directory", f.loc(t.line),
              detail=REVIEWED.get(owner))
    # who calls the applier
    callers = [t for t in fb.calls_to(r"write_artifacts::apply_file_system_operations$") if non_test(t.fn)]
    cx.floor("R17.owner callers of the applier", len(callers), 1)
    for t in callers:
        cx.ob("R17.owner", t.fn.id + "|calls-applier", t.fn.id.endswith("batch_compile::compile"),
              "apply_file_system_operations is called from somewhere other than compile()", t.fn.loc(t.line))

    # ---- R17.validate-first -------------------------------------------------
    c = fb.one(r"isograph_compiler::batch_compile::compile$")
    gen = [t for t in c.calls() if term_calls(t, r"artifact_content::(generate_artifacts::)?get_artifact_path_and_content$")]
    if len(gen) != 1:
        raise AnchorError("compile: expected one get_artifact_path_and_content call")
    ok_t, err_t = result_branch(c, gen[0])
    for pat, what in ((r"write_artifacts::get_file_system_operations$", "planning"),
                      (r"write_artifacts::apply_file_system_operations$", "applying")):
        bs = blocks_calling(c, pat)
        cx.ob("R17.validate-first", "%s|%s-after-successful-generation" % (c.id, what),
              bool(bs) and all(c.dominates(ok_t, b) for b in bs) and not (set(bs) & reachable_from(c, err_t)),
              "%s file-system operations is not dominated by the success continuation of "
              "get_artifact_path_and_content: a compile with diagnostics can reach the writer" % what, c.loc())
    # ---- R17.no-failure-after-write: once the applier succeeded compile() cannot report failure -------------
    apc = [t for t in c.calls() if term_calls(t, r"write_artifacts::apply_file_system_operations$")]
    if len(apc) != 1:
        raise AnchorError("compile: expected one applier call")
    a_ok, a_err = result_branch(c, apc[0])
    after = reachable_from(c, a_ok) - reachable_from(c, a_err)
    errs = [b for b in after if blk_calls(c.blocks[b], r"Postfix::wrap_err$|FromResidual") or any(
        s.rv == "aggregate" and s.j.get("variant") == "Err" for s in c.blocks[b].stmts)]
    cx.ob("R17.no-failure-after-write", c.id + "|no-Err-after-successful-apply", not errs,
          "compile() can still return an error after the artifacts have been written: a compile reported as failed "
          "has changed the artifact directory", c.loc(c.blocks[errs[0]].term.line if errs else None))

    g = fb.one(r"artifact_content::generate_artifacts::get_artifact_path_and_content$")
    val = [t for t in g.calls() if term_calls(t, r"validate_entire_schema$")]
    impl = blocks_calling(g, r"get_artifact_path_and_content_impl$")
    if len(val) != 1 or not impl:
        raise AnchorError("get_artifact_path_and_content: validate_entire_schema / impl calls not found")
    try:
        ok_t, err_t = result_branch(g, val[0])
    except AnchorError:
        if any(not o.ok for o in cx.obs):
            return  # the gate cannot be recognised and a violation has already been established above
        raise
    cx.ob("R17.validate-first", g.id + "|generation-after-successful-validation",
          all(g.dominates(ok_t, b) for b in impl) and not (set(impl) & reachable_from(g, err_t)),
          "artifacts are generated although validate_entire_schema reported errors", g.loc())
    # on the error continuation the function returns Err (the diagnostics are not swallowed)
    rets = reachable_from(g, err_t)
    oks = [s for b in rets for s in g.blocks[b].stmts if s.rv == "aggregate" and s.j.get("variant") == "Ok"] + \
          [t for b in rets for t in [g.blocks[b].term] if term_calls(t, r"Postfix::wrap_ok$")]
    oks = [x for x in oks if x.bb not in reachable_from(g, ok_t)]
    cx.ob("R17.validate-first", g.id + "|errors-propagate", not oks,
          "validation errors are converted into a successful result", g.loc())
    # watch mode: a batch of file events that could only be applied partly must not be compiled (and written)
    from props.c20 import watch_rule
    watch_rule(cx, cx.mir("isograph_compiler", "isograph_schema"), "R17.watch-partial-update")
    # impl is only called from the gate
    for t in fb.calls_to(r"get_artifact_path_and_content_impl$"):
        if non_test(t.fn):
            cx.ob("R17.validate-first", t.fn.id + "|calls-impl", t.fn.id == g.id,
                  "artifact generation is entered without passing the validation gate", t.fn.loc(t.line))
