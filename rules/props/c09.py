"""C09 — Every generated operation is valid GraphQL for the schema."""
import re
from rulelib import *
from factbase import AnchorError, op_place, op_const
import sibling, samesrc, charmap
from props.printer_shared import *

TITLE = "Every generated operation is valid GraphQL for the schema"
TECHNIQUE = "MIR sibling / same-source / exact char-map interval analysis + template taint (syn templates joined with MIR types)"
EXPLANATION = (
    "Decides clauses of the operation printer pipeline: (1) the variables collected for an operation's declaration "
    "list are extracted deeply (objects and lists) by every extractor reachable from get_reachable_variables; (2) in "
    "each generator the variable definitions handed to generate_query_text are computed from the same selection map "
    "that is printed (same-source rule); (3) response aliases are GraphQL names: the per-character map applied to "
    "string arguments is analysed exactly from its MIR (interval analysis) and must pass through only [A-Za-z0-9_], "
    "and the Display alphabet of every value kind the iso parser can construct must be name characters; (4) the "
    "operation text (which embeds raw string-literal bodies) is placed into the generated module's quoted string "
    "only through an escaping function; (5) the query printer never prints an empty selection set. Validity against "
    "the schema (types of variables, field merging) is not decided.")
ASSUMPTIONS = ["identifier newtypes (entity / selectable / variable names) hold GraphQL names (lexer rule)"]

NAME_CHARS = [(ord("0"), ord("9")), (ord("A"), ord("Z")), (ord("_"), ord("_")), (ord("a"), ord("z"))]

# Display alphabet per formatted type (outside [A-Za-z0-9_] characters only)
ALPHABET_EXTRA = {"i64": "-", "i32": "-", "f64": "-+.", "f32": "-+."}


def subset(ivs, allowed):
    return all(any(a <= lo and hi <= b for a, b in allowed) for lo, hi in ivs)


def rule_alias_alphabet(cx, fb, prop="R09.alias-alphabet"):
    f, sw = ncv_switch(fb, r"NonConstantValueInner::<TLocation>::to_alias_str_chunk$")
    at = sibling.attributes(fb, f, sw, r"to_alias_str_chunk$")
    constructed = parser_constructed_variants(fb)
    cx.floor(prop + " value kinds the iso parser constructs", len(constructed), 5)
    regs = sibling.arm_regions(f, sw)
    T = templates.Templates(cx.syn(), os.environ.get("VERIF_REPO", "/repo"))
    dt = templates.display_types(fb, f.file)
    # literal pieces of the templates in this function are name characters
    for m in T.macros_in(re.escape(f.file) + "$", r"to_alias_str_chunk$"):
        if m["macro"] != "format":
            continue
        phs, cooked, _ = T.placeholders(m)
        lit = (cooked or "").replace("\x00", "")
        cx.ob(prop, "%s|template-L%d-literal-pieces" % (f.id, m["span"][0]), re.fullmatch(r"[A-Za-z0-9_]*", lit) is not None,
              "a literal piece of an alias template contains a character that is not a GraphQL name character: %r" % lit,
              "%s:%d" % (m["file"], m["span"][0]))
        for (l, c, name, ctx) in phs:
            ty = (dt.get((l, c)) or "").split("::")[-1]
            # which variant arm does this line belong to?
            arm = None
            for v, reg in regs.items():
                lines = {f.blocks[b].term.line for b in reg} | {s.line for b in reg for s in f.blocks[b].stmts}
                if l in lines:
                    arm = v
            if arm is not None and arm not in constructed:
                cx.note("%s: arm %s is not constructed by the iso parser; its alphabet is not judged" % (prop, arm))
                continue
            extra = ALPHABET_EXTRA.get(ty)
            if extra is not None:
                cx.ob(prop, "%s|%s-display-alphabet" % (f.id, arm or ty), False,
                      "a value of type %s is formatted into the alias; its Display output can contain %r, which is "
                      "not allowed in a GraphQL name (alias)" % (ty, extra), "%s:%d" % (m["file"], l))
            else:
                cx.count()
    # the String arm: exact analysis of the per-character closure(s)
    closures = [(c, 2) for c in sibling.region_closures(fb, f, regs.get("String", set())) if c.argc == 2 and
                c.locals[2]["ty"] == "char"]
    # the map may also be a named function passed by name: `.map(sanitize_alias_char)`
    for b_ in regs.get("String", set()):
        blk = f.blocks[b_]
        for o in [o for s_ in blk.stmts for o in s_.ops] + (list(blk.term.args) if blk.term.op == "call" else []):
            c_ = op_const(o)
            if c_ and c_.get("fn") in fb.fns:
                h = fb.fns[c_["fn"]]
                if h.argc == 1 and h.locals[1]["ty"] == "char" and (h, 1) not in closures:
                    closures.append((h, 1))
    cx.floor(prop + " per-character maps in the String arm", len(closures), 1)
    for c, arg_local in closures:
        pieces = charmap.analyse(c, arg_local)
        if pieces is None:
            called = sorted({(t.callee or "?").split("::")[-1] for t in c.calls()})
            cx.ob(prop, c.id + "|char-map-is-ascii-name-chars", False,
                  "the per-character map applied to string arguments is not a closed ASCII range test (it calls %s): "
                  "Unicode-aware classification lets non-ASCII letters/digits through into the alias, which is not a "
                  "GraphQL name" % called, c.loc())
            continue
        ident = charmap.identity_set(pieces)
        consts = charmap.constants(pieces)
        ok = subset(ident, NAME_CHARS) and all(any(a <= k <= b for a, b in NAME_CHARS) for k in consts)
        cx.ob(prop, c.id + "|char-map-is-ascii-name-chars", ok,
              "characters outside [A-Za-z0-9_] can reach the alias: identity ranges %s, constants %s" % (
                  [(chr(a), chr(b)) for a, b in ident][:8], [chr(k) for k in consts]), c.loc())
        cx.extra["alias_char_map"] = {"identity": [[chr(a), chr(b)] for a, b in ident], "constants": [chr(k) for k in consts]}
    return f


def run(cx):
    fb = cx.mir(*PRINTER_CRATES)
    # ---- R09.variables-deep ------------------------------------------------------------------
    root = fb.one(r"isograph_schema::create_merged_selection_set::get_reachable_variables$")
    reach = fb.reachable_fns([root], stop=lambda g: g.crate not in ("isograph_schema", "isograph_lang_types"))
    extractors = []
    for g in reach.values():
        for sw in discr_switches(g):
            if (sw["adt"] or "").endswith("NonConstantValueInner") and "Variable" in sw["arms"]:
                extractors.append((g, sw))
    deep_fn = any(g.id.endswith("NonConstantValueInner::<TLocation>::variables") for g in reach.values())
    cx.floor("R09.variables-deep extractors reachable from get_reachable_variables", len(extractors), 1)
    for g, sw in extractors:
        at = sibling.attributes(fb, g, sw, re.escape(g.name) + r"$|::variables$|extend_reachable_variables_with_arg$")
        for v in ("Object", "List"):
            a = at.get(v)
            cx.ob("R09.variables-deep", "%s|%s-descends" % (g.id, v), a is not None and a["recurses"],
                  "variables inside %s argument values are not collected: the operation uses a variable it does not "
                  "declare" % v.lower(), g.loc())

    # ---- R09.declared-equals-used -----------------------------------------------------------------
    gens = [f for f in fb.fns.values() if f.crate == "artifact_content" and any(
        term_calls(t, r"NetworkProtocol::generate_query_text$") for t in f.calls())]
    cx.floor("R09.declared-equals-used generators", len(gens), 2)
    for f in gens:
        for i, t in enumerate([t for t in f.calls() if term_calls(t, r"NetworkProtocol::generate_query_text$|operation_text::generate_operation_text$")]):
            map_p = var_p = None
            for a, ty in zip(t.args, t.j.get("atys", [])):
                if re.search(r"WrappedMergedSelectionMap|MergedSelectionMap", ty):
                    map_p = op_place(a)
                if re.search(r"VariableDeclaration|Copied<|Iter<", ty) and not re.search(r"MergedSelectionMap", ty):
                    var_p = op_place(a)
            if map_p is None or var_p is None:
                raise AnchorError("%s: cannot identify map / variable operands of %s" % (f.id, t.callee))
            vp = samesrc.producer(f, var_p.local)
            if vp[0] != "call" or not re.search(r"get_used_variable_definitions$", vp[2]):
                # variables handed over by the caller: judged at the caller
                cx.count()
                continue
            vcall = f.blocks[vp[1]].term
            a0 = op_place(vcall.args[0])
            a0ty = (vcall.j.get("atys") or [""])[0]
            if re.search(r"MergedSelectionMap|BTreeMap<.*NormalizationKey", a0ty):
                same, why = samesrc.same_source(f, a0.local, map_p.local)
                cx.ob("R09.declared-equals-used", "%s|%s#%d" % (f.id, (t.callee or "").split("::")[-1], i), same,
                      "the variable definitions of the operation are computed from a different selection map than the "
                      "one that is printed (%s): a variable introduced by wrapping (e.g. $id of node(id: $id)) is used "
                      "but not declared" % why, f.loc(t.line))
            else:
                # computed from a set of reachable variables passed in: it must come from get_reachable_variables of
                # the printed map at the caller; recorded, judged by R09.variables-deep
                cx.count()

    # ---- R09.alias-alphabet ----------------------------------------------------------------------------
    rule_alias_alphabet(cx, fb)

    # ---- R09.string-context -------------------------------------------------------------------------------
    pl, T = placements(cx, fb, r"crates/(artifact_content|graphql_network_protocol)/src/")
    n = 0
    for (m, l, c, name, ctx, ty) in pl:
        k = tainted_type(ty)
        if k != "QueryText" and not (k == "StringLiteralValue" and "query_text.rs" in m["file"]):
            continue
        n += 1
        cx.ob("R09.string-context", "%s|%s-in-%s|%s" % (m["file"].split("/")[-1], k, ctx, m["in"].split("::")[-1]),
              ctx not in DANGEROUS[k],
              "%s is interpolated into a %s context of the generated module without escaping: a string argument "
              "containing a quote or backslash changes the lexical structure, so the operation sent is not the one "
              "that was printed (or the module does not parse)" % (k, ctx), "%s:%d" % (m["file"], l))
    cx.floor("R09.string-context placements of operation text / string literals", n, 3)

    # ---- R09.nonempty-selection ------------------------------------------------------------------------------
    q, qsw = mss_switch(fb, r"graphql_network_protocol::query_text::write_selections_for_query_text$")
    qa = sibling.attributes(fb, q, qsw, r"write_selections_for_query_text$")
    silent = sorted(v for v, a in qa.items() if not a["emits"])
    ie = [t for t in q.calls() if term_calls(t, r"BTreeMap::<K, V, A>::is_empty$")]
    # the placeholder guard only looks at emptiness of the map; a map whose only entries are of a kind that prints
    # nothing still yields `{ }`
    cx.ob("R09.nonempty-selection", q.id + "|placeholder-covers-silent-kinds", not silent or not ie or False,
          "the `__typename` placeholder is emitted only for an empty map, but selections of kind %s print nothing: a "
          "selection set consisting only of those is printed as `{ }`, which is not valid GraphQL" % silent, q.loc())
