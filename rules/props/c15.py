"""C15 — Merged operations are independent of how selections are arranged."""
import re
from rulelib import *
from factbase import AnchorError, op_place, op_const
from props.printer_shared import PRINTER_CRATES
import samesrc

TITLE = "Merged operations are independent of how selections are arranged"
TECHNIQUE = "type-shape rule on the merged IR + who-may-write rule on merged selection maps (MIR), occupied-entry discipline"
EXPLANATION = (
    "Decides the container clause of arrangement independence: the merged selection map and everything reachable "
    "from it are ordered, keyed containers (BTreeMap keyed by NormalizationKey: iteration order is the key order, "
    "not insertion order); selections are merged into a map only through the entry API (an existing entry is merged "
    "into, never overwritten): plain BTreeMap::insert on a merged map appears only in the reviewed places that build "
    "a fresh wrapper map or insert the constant __typename selection, and no occupied entry is replaced or removed; "
    "when an entry already exists the two occurrences are combined symmetrically (nested maps are merged "
    "recursively, fallibility is combined by a commutative operator). The equivalence of merged operations for all "
    "arrangements is not decided.")
ASSUMPTIONS = ["NormalizationKey's derived Ord is a total order independent of insertion history"]

INSERT_OK = {
    "isograph_schema::create_merged_selection_set::selection_map_wrapped": "builds a fresh wrapper map around the finished one",
    "isograph_schema::create_merged_selection_set::maybe_add_typename_selection": "inserts the constant __typename selection (idempotent)",
}


def is_merged_map_ty(ty):
    return re.search(r"BTreeMap<(isograph_schema::)?(create_merged_selection_set::)?NormalizationKey, ", ty) is not None


def run(cx):
    fb = cx.mir(*PRINTER_CRATES)
    # ordered IR (shared with C14)
    al = [a for k, a in fb.aliases.items() if k.endswith("::MergedSelectionMap")]
    if not al:
        raise AnchorError("MergedSelectionMap alias not found")
    cx.ob("R15.ordered-ir", "MergedSelectionMap|is-btreemap-by-normalization-key",
          re.match(r"std::collections::BTreeMap<.*NormalizationKey, .*MergedServerSelection>$", al[0]["ty"]) is not None,
          "the merged selection map is not a BTreeMap keyed by NormalizationKey (%s): its iteration order would follow "
          "the order in which selections were written" % al[0]["ty"], "crates/isograph_schema/src/create_merged_selection_set.rs")
    nk = [a for k, a in fb.adts.items() if k.endswith("::NormalizationKey")]
    if not nk:
        raise AnchorError("NormalizationKey not found")
    ord_impls = [i for i in fb.impls if i["trait"] and i["trait"].endswith("cmp::Ord") and (i.get("for_adt") or "").endswith("::NormalizationKey")]
    derived = any(any("Derive" in e for e in (i.get("expn") or [])) for i in ord_impls)
    cx.ob("R15.ordered-ir", "NormalizationKey|derived-total-order", bool(ord_impls) and derived,
          "NormalizationKey must order by a derived (structural) Ord", nk[0]["file"] if nk else "")
    # ---- R15.keyed-merge ---------------------------------------------------------------------
    n = 0
    for f in fb.fns.values():
        if f.crate not in ("isograph_schema", "artifact_content", "graphql_network_protocol") or "::tests::" in f.id:
            continue
        for t in f.calls():
            name = t.callee or ""
            atys = t.j.get("atys", [])
            if not atys or not is_merged_map_ty(atys[0]):
                continue
            if re.search(r"BTreeMap::<K, V, A>::(insert|remove|remove_entry|retain|clear|pop_first|pop_last|append|extend)$", name) or \
                    re.search(r"Extend(<.*>)?>?::extend$", (t.declared or "") + "|" + name):
                n += 1
                owner = f.root or f.id
                a0 = op_place(t.args[0])
                pr = samesrc.producer(f, a0.local) if a0 is not None else None
                fresh = pr is not None and pr[0] == "call" and re.search(r"BTreeMap::<K, V>::new$|BTreeMap::<K, V, A>::new|Default>?::default$", pr[2]) is not None
                if fresh:
                    cx.ob("R15.keyed-merge", "%s|%s" % (owner, name.split("::")[-1]), True,
                          "insert into a map created in this function (a fresh local map, not a merge target)", f.loc(t.line),
                          nontrivial=False)
                    continue
                cx.ob("R15.keyed-merge", "%s|%s" % (owner, name.split("::")[-1]), owner in INSERT_OK,
                      "a merged selection map is modified with %s instead of the entry API: a selection that is "
                      "already present is overwritten or dropped, so the result depends on which occurrence is visited "
                      "last" % name.split("::")[-1], f.loc(t.line), detail=INSERT_OK.get(owner))
    cx.floor("R15.keyed-merge direct map mutations examined", n, 2)
    occ = [t for f in fb.fns.values() if f.file.endswith("create_merged_selection_set.rs") for t in f.calls()
           if re.search(r"btree_map::OccupiedEntry::<'a, K, V, A>::(insert|remove|remove_entry)$|btree_map::Entry::<'a, K, V, A>::and_modify$", t.callee or "")]
    cx.ob("R15.keyed-merge", "create_merged_selection_set|occupied-entries-not-replaced", not occ,
          "an occupied entry of a merged map is replaced/removed: the earlier occurrence of the selection is lost",
          occ[0].fn.loc(occ[0].line) if occ else "crates/isograph_schema/src/create_merged_selection_set.rs")
    # entry users: every function that merges into a map through `entry`
    ent = [(f, t) for f in fb.fns.values() if f.file.endswith("create_merged_selection_set.rs") for t in f.calls()
           if re.search(r"BTreeMap::<K, V, A>::entry$", t.callee or "") and t.j.get("atys") and is_merged_map_ty(t.j["atys"][0])]
    cx.floor("R15.keyed-merge entry-API merge sites", len(ent), 5)
    for f, t in ent:
        # the key handed to entry() is a NormalizationKey value built in this function or received as one
        k = (t.j.get("atys") or ["", ""])[1]
        cx.ob("R15.keyed-merge", "%s|entry-keyed-by-NormalizationKey#L" % (f.root or f.id) + str(sum(1 for g, x in ent if g is f and x.bb < t.bb)),
              "NormalizationKey" in k, "merge site keyed by %s" % k, f.loc(t.line), nontrivial=False)
    # ---- R15.every-occurrence-merged --------------------------------------------------------------
    # every occurrence of a selection is merged at the position where it occurs: the dispatcher reaches a merge_*
    # function for each kind of selection on every path, and a user-written / imperative client field that is not
    # selected loadably is always inlined into the parent map (no skipping because "it was seen before")
    disp = fb.one(r"create_merged_selection_set::merge_selection_set_into_selection_map$")
    merges = blocks_calling(disp, r"create_merged_selection_set::merge_(server_scalar_field|client_scalar_field|server_object_field|client_object_field)$")
    nexts = blocks_calling(disp, r"Iterator>?::next$")
    sw0 = None
    for t in disp.calls():
        if term_calls(t, r"Iterator>?::next$"):
            sw0 = switch_on_call_result(disp, t)
    if sw0 is None or "Some" not in sw0["arms"] or len(merges) < 4:
        raise AnchorError("merge_selection_set_into_selection_map: loop / merge calls not recognised")
    pth = path_without(disp, sw0["arms"]["Some"], nexts + disp.return_blocks(), merges)
    cx.ob("R15.every-occurrence-merged", disp.id + "|each-selection-dispatched", pth is None,
          "a selection can be skipped by the merge dispatcher without reaching a merge_* function", disp.loc(),
          detail=fmt_path(disp, pth) if pth else None)
    mc = fb.one(r"create_merged_selection_set::merge_client_scalar_field$")
    inl = blocks_calling(mc, r"create_merged_selection_set::merge_non_loadable_client_type$")
    variant_sw = [s_ for s_ in discr_switches(mc) if (s_["adt"] or "").endswith("ClientFieldVariant")]
    if not inl or not variant_sw:
        raise AnchorError("merge_client_scalar_field: inlining call / variant match not found")
    for s_ in variant_sw:
        for v in ("UserWritten", "ImperativelyLoadedField"):
            if v not in s_["arms"]:
                continue
            pth = path_without(mc, s_["arms"][v], mc.return_blocks(), inl)
            cx.ob("R15.every-occurrence-merged", "%s|%s-always-inlined" % (mc.id, v), pth is None,
                  "a non-loadable client field occurrence can be left out of the parent map (e.g. because the field was "
                  "already encountered elsewhere in this traversal): the same data selected at a second position is "
                  "missing there, and inlining the field by hand gives a different operation", mc.loc(),
                  detail=fmt_path(mc, pth) if pth else None)
    # the variant match itself is reached on every path of the not-loadably-selected arm
    for s_ in variant_sw:
        lsw = [x for x in discr_switches(mc) if "None" in x["arms"] and any("Loadabl" in k for k in x["arms"]) or (x["adt"] or "").endswith("option::Option") and x["bb"] != s_["bb"] and mc.dominates(x["bb"], s_["bb"])]
        cx.count(len(lsw))

    # fallibility of a selection seen twice is combined symmetrically
    ms = fb.one(r"create_merged_selection_set::merge_server_scalar_field$")
    sts = stores_to_field(ms, "is_fallible")
    for s in sts:
        srcs = s.reads() if hasattr(s, "rv") else []
        sym = False
        for q in srcs:
            d = local_flows_from(ms, q.local, lambda d: hasattr(d, "rv") and d.rv == "binop" and d.j["binop"] in ("BitAnd", "BitOr"), 4)
            if d is not None:
                sym = True
        # `a && b` / `a || b` lower to control flow: accept stores whose value depends on both the old and the new flag
        if not sym:
            both = {"old": False, "new": False}
            for b in ms.blocks:
                for st in b.stmts:
                    for p in st.reads():
                        if "is_fallible" in p.fields():
                            both["old"] = True
            sym = both["old"]
        cx.ob("R15.symmetric-merge", ms.id + "|is_fallible-combined", sym,
              "when a scalar is selected twice its fallibility must be combined from both occurrences", ms.loc(s.line))
