"""Rules over the artifact / operation printers shared by C09, C11, C12, C13, C27."""
import json, os, re
from rulelib import *
from factbase import AnchorError, op_place, op_const
import sibling, samesrc, charmap, templates
from templates import CODE, SQ, DQ, BT, BLOCK, LINE

PRINTER_CRATES = ("artifact_content", "graphql_network_protocol", "isograph_schema", "isograph_lang_types",
                  "common_lang_types", "isograph_lang_parser", "isograph_config")

# user-controlled text, by the type that carries it, and the lexical contexts of generated JS/TS in which the
# raw text can change the lexical structure (no sanitiser exists in the repository today)
DANGEROUS = {
    "StringLiteralValue": {SQ, BT, BLOCK, LINE},             # raw body of an iso "..." literal: may contain ' ` \\ (code context:
                                                             # directive field paths, expected to be identifiers - not judged)
    "QueryText": {SQ, DQ, BT, BLOCK, LINE},                  # embeds string literal bodies between double quotes
    "DescriptionValue": {SQ, DQ, BT, BLOCK, LINE, CODE},     # arbitrary block-string text
    "Description": {SQ, DQ, BT, BLOCK, LINE, CODE},
    "IsoLiteralText": {SQ, DQ, BT, BLOCK, LINE, CODE},       # arbitrary text between backticks (newlines, quotes)
    "GeneratedFileHeader": {SQ, DQ, BT, BLOCK, CODE},        # validated to be a single line: safe in a line comment only
}


def tainted_type(ty):
    if not ty:
        return None
    for k in DANGEROUS:
        if re.search(r"\b%s\b" % k, ty):
            return k
    return None


def parser_constructed_variants(fb):
    """NonConstantValueInner variants that the iso literal parser can construct (aggregate sites)."""
    out = set()
    for f in fb.fns.values():
        if f.crate != "isograph_lang_parser":
            continue
        for s in f.stmts():
            if s.rv == "aggregate" and s.j.get("agg") == "adt" and s.j["adt"].endswith("NonConstantValueInner"):
                out.add(s.j["variant"])
            for o in s.ops:
                c = op_const(o)
                if c and "fn" in c and "NonConstantValueInner" in c["fn"]:
                    out.add(c["fn"].split("::")[-1])
        for t in f.calls():
            for o in t.args:
                c = op_const(o)
                if c and "fn" in c and "NonConstantValueInner" in c["fn"]:
                    out.add(c["fn"].split("::")[-1])
            if t.callee and "NonConstantValueInner" in t.callee and re.search(r"::[A-Z]\w+$", t.callee):
                out.add(t.callee.split("::")[-1])
    return out


def ncv_switch(fb, fn_rx):
    f = fb.one(fn_rx)
    for sw in discr_switches(f):
        if (sw["adt"] or "").endswith("NonConstantValueInner"):
            return f, sw
    raise AnchorError("no match over NonConstantValue in " + fn_rx)


def mss_switch(fb, fn_rx):
    f = fb.one(fn_rx)
    for sw in discr_switches(f):
        if (sw["adt"] or "").endswith("MergedServerSelection"):
            return f, sw
    raise AnchorError("no match over MergedServerSelection in " + fn_rx)


def placements(cx, fb, file_rx):
    """All format-template placeholders of the files: (macro record, line, col, name, context, type)"""
    T = templates.Templates(cx.syn(), os.environ.get("VERIF_REPO", "/repo"))
    cache = {}
    out = []
    for m in T.macros_in(file_rx):
        phs, cooked, end = T.placeholders(m)
        dt = cache.setdefault(m["file"], templates.display_types(fb, m["file"]))
        for (l, c, name, ctx) in phs:
            out.append((m, l, c, name, ctx, dt.get((l, c))))
    return out, T


def builder_placements(cx, fb, file_rx):
    """Straight-line `push_str` builders: (file, fn, line, context, type) for every non-literal pushed value,
    with the lexical context reached after the literal pieces pushed before it in the same function."""
    syn = cx.syn()
    by_fn = {}
    for c in syn["calls"]:
        if c["method"] in ("push_str", "push") and re.search(file_rx, c["file"]):
            by_fn.setdefault((c["file"], c["in"], c["recv"]), []).append(c)
    out = []
    for (file, fn_, recv), calls in by_fn.items():
        calls.sort(key=lambda c: (c["span"][0], c["span"][1]))
        st = CODE
        for c in calls:
            a = c["args"][0] if c["args"] else {}
            if "str" in a:
                _, st = templates.contexts(a["str"], st)
            else:
                # type of the pushed value from MIR: producer of the argument of String::push_str at that line
                ty = None
                for f in fb.fns.values():
                    if f.file != file:
                        continue
                    for t in f.calls():
                        if term_calls(t, r"string::String::push_str$") and t.line == c["span"][0]:
                            p = op_place(t.args[1])
                            if p is None:
                                continue
                            pr = samesrc.producer(f, p.local)
                            if pr[0] == "call":
                                src = f.blocks[pr[1]].term
                                ty = " ".join(src.j.get("atys", [])) + " " + (src.callee or "")
                            else:
                                ty = f.local_ty(p.local)
                out.append((file, fn_, c["span"][0], st, ty, a.get("text", "")))
    return out
