"""C11 — Normalization ASTs describe exactly the operation they accompany."""
import re
from rulelib import *
from factbase import AnchorError, op_place, op_const
import sibling, samesrc
from props.printer_shared import *

TITLE = "Normalization ASTs describe exactly the operation they accompany"
TECHNIQUE = "sibling cross-check of the query-text and normalization-AST printers per enum variant (MIR) + same-source rule on the maps they are given"
EXPLANATION = (
    "The operation text and the normalization AST are printed by sibling functions that match over the same enums. "
    "From the MIR of both, a per-variant attribute vector is extracted (emits / skips, recursion into the nested "
    "selection map, use of name and arguments, arms shared between variants, panicking arms) and required to agree "
    "for every MergedServerSelection variant and, for argument values, every NonConstantValue variant (including that "
    "nested object entries are printed under their own names). In every generator that emits both artifacts the map "
    "given to the query printer and the one given to the AST printer must derive from the same value with no "
    "mutation in between; both printers must treat the empty map alike. Equality of the printed trees for all "
    "inputs is not decided beyond these per-variant clauses.")
ASSUMPTIONS = ["both printers are reached only through the generators analysed (checked by call-site enumeration)"]


def run(cx):
    fb = cx.mir(*PRINTER_CRATES)
    q, qsw = mss_switch(fb, r"graphql_network_protocol::query_text::write_selections_for_query_text$")
    n, nsw = mss_switch(fb, r"artifact_content::normalization_ast_text::generate_normalization_ast_node$")
    qa = sibling.attributes(fb, q, qsw, r"write_selections_for_query_text$")
    na = sibling.attributes(fb, n, nsw, r"generate_normalization_ast_text$|generate_normalization_ast_node$")
    for f_, sw in ((q, qsw), (n, nsw)):
        cx.ob("R11.sibling-printers", f_.id + "|no-wildcard", not sw["wildcard"],
              "a printer handles MergedServerSelection variants %s through a wildcard arm" % sw["wildcard"], f_.loc())
    variants = sorted(set(qa) | set(na))
    cx.floor("R11.sibling-printers MergedServerSelection variants", len(variants), 4)
    for v in variants:
        a, b = qa.get(v), na.get(v)
        if a is None or b is None:
            cx.ob("R11.sibling-printers", "variant-%s|handled-by-both" % v, False,
                  "variant %s is handled by only one of the two printers" % v, (q if a is None else n).loc())
            continue
        for attr, what in (("emits", "printed by one printer and skipped by the other"),
                           ("recurses", "one printer descends into the nested selection map and the other does not")):
            cx.ob("R11.sibling-printers", "variant-%s|%s-agrees" % (v, attr), a[attr] == b[attr],
                  "selection kind %s is %s (query text: %s=%s, normalization AST: %s=%s): the AST no longer "
                  "describes the operation" % (v, what, attr, a[attr], attr, b[attr]), n.loc())
        for fld in ("arguments", "name", "type_to_refine_to", "selection_map"):
            cx.ob("R11.sibling-printers", "variant-%s|uses-%s-agrees" % (v, fld), (fld in a["fields"]) == (fld in b["fields"]),
                  "for %s only one printer uses `%s`" % (v, fld), n.loc(), nontrivial=False)
        cx.ob("R11.sibling-printers", "variant-%s|arm-sharing-agrees" % v, a["shared_with"] == b["shared_with"],
              "variant %s shares its arm with %s in the query printer but with %s in the AST printer" % (
                  v, a["shared_with"], b["shared_with"]), n.loc())
    for v in variants:
        if v != "LinkedField" and v in na:
            cx.ob("R11.sibling-printers", "variant-%s|no-concreteType" % v, "concrete_target_entity_name" not in na[v]["fields"],
                  "concreteType is printed for a non-linked selection", n.loc(), nontrivial=False)

    # ---- R11.args-sibling ------------------------------------------------------------------
    g, gsw = ncv_switch(fb, r"graphql_network_protocol::query_text::serialize_non_constant_value_for_graphql$")
    h, hsw = ncv_switch(fb, r"artifact_content::generate_artifacts::get_serialized_field_argument$")
    ga = sibling.attributes(fb, g, gsw, r"serialize_non_constant_value_for_graphql$")
    ha = sibling.attributes(fb, h, hsw, r"get_serialized_field_argument$")
    for v in sorted(set(ga) | set(ha)):
        a, b = ga.get(v), ha.get(v)
        if a is None or b is None:
            cx.ob("R11.args-sibling", "value-%s|handled-by-both" % v, False, "argument kind handled by one printer only", h.loc())
            continue
        cx.ob("R11.args-sibling", "value-%s|panics-agrees" % v, a["panics_only"] == b["panics_only"],
              "argument kind %s is printed by one printer and rejected by the other" % v, h.loc())
        cx.ob("R11.args-sibling", "value-%s|recursion-agrees" % v, a["recurses"] == b["recurses"],
              "argument kind %s is printed recursively by only one printer" % v, h.loc())
    for who, at, f_ in (("query text", ga, g), ("normalization AST", ha, h)):
        o = at.get("Object")
        ok = o is not None and "name" in o["fields"] and "value" in o["fields"]
        cx.ob("R11.args-sibling", "%s|object-entries-use-own-name" % f_.id, ok,
              "in the %s an object argument's entries are not printed from each entry's own name and value "
              "(fields read: %s): nested entries appear under the wrong key" % (who, sorted(o["fields"]) if o else None),
              f_.loc())

    # ---- R11.same-map ----------------------------------------------------------------------------
    gens = [f for f in fb.fns.values() if f.crate == "artifact_content" and any(
        term_calls(t, r"normalization_ast_text::generate_normalization_ast_text$") for t in f.calls()) and any(
        term_calls(t, r"operation_text::generate_operation_text$|NetworkProtocol::generate_query_text$") for t in f.calls())]
    cx.floor("R11.same-map generators emitting both artifacts", len(gens), 2)
    for f in gens:
        nt = [t for t in f.calls() if term_calls(t, r"normalization_ast_text::generate_normalization_ast_text$")]
        qt = [t for t in f.calls() if term_calls(t, r"operation_text::generate_operation_text$")]
        qt2 = [t for t in f.calls() if term_calls(t, r"NetworkProtocol::generate_query_text$")]
        for i, t in enumerate(qt + qt2):
            # the selection-map operand: the argument whose type mentions the merged selection map
            def map_arg(call):
                for a, ty in zip(call.args, call.j.get("atys", [])):
                    if re.search(r"MergedSelectionMap|BTreeMap<.*NormalizationKey|Values<", ty):
                        return op_place(a)
                return None
            qa_, na_ = map_arg(t), map_arg(nt[0])
            if qa_ is None or na_ is None:
                raise AnchorError("%s: cannot find the selection-map operands" % f.id)
            same, why = samesrc.same_source(f, qa_.local, na_.local)
            cx.ob("R11.same-map", "%s|%s#%d" % (f.id, (t.callee or "").split("::")[-1], i), same,
                  "the operation text and the normalization AST are printed from different selection maps (%s): "
                  "one of them contains selections the other lacks" % why, f.loc(t.line))

    # ---- R11.placeholder ---------------------------------------------------------------------------
    ie = [t for t in q.calls() if term_calls(t, r"BTreeMap::<K, V, A>::is_empty$")]
    q_special = False
    if ie:
        tt, ft = call_bool_branch(q, ie[0])
        reg = reachable_from(q, tt) - reachable_from(q, ft)
        q_special = any(any(op_const(o) and "__typename" in (op_const(o).get("str") or "") for s in q.blocks[b].stmts for o in s.ops)
                        or any(op_const(a) and "__typename" in (op_const(a).get("str") or "") for a in q.blocks[b].term.args)
                        for b in reg)
    gen_n = fb.one(r"artifact_content::normalization_ast_text::generate_normalization_ast_text$")
    n_special = any(op_const(o) and "__typename" in (op_const(o).get("str") or "") for s in gen_n.stmts() for o in s.ops) or any(
        op_const(a) and "__typename" in (op_const(a).get("str") or "") for t in gen_n.calls() for a in t.args)
    cx.ob("R11.placeholder", "empty-selection-map", q_special == n_special,
          "for an empty selection map the query printer emits the placeholder field `__typename` but the "
          "normalization AST printer emits no selection: the AST does not describe the operation", q.loc())
