"""C25 — Refetch references resolve to the refetch query for that field."""
import re
from rulelib import *
from factbase import AnchorError, op_place, op_const
import samesrc
from props.printer_shared import PRINTER_CRATES

TITLE = "Refetch references resolve to the refetch query for that field"
TECHNIQUE = "index-space rule: every producer of a refetch-query index enumerates the same ordered map without filter/sort/dedup in between (MIR call chains) + type-shape rule"
EXPLANATION = (
    "Refetch queries are referred to by position. The producers of such positions - the enumerate() that names the "
    "__refetch__N artifacts, the enumerate() that writes the refetchQueryN imports and their array positions, "
    "find_imperatively_fetchable_query_index and get_nested_refetch_query_text in the reader generator - must all "
    "enumerate the refetch path map (a BTreeMap, hence one stable order) directly: between the map iteration "
    "(iter / keys / into_iter, or a Vec collected from it by an order-preserving map) and enumerate() there is no "
    "filter, sort, dedup, rev, skip, take or chain. The file-name template and the import template use the same "
    "index placeholder shape (__refetch__{index}). That the composed index lists select the right query along "
    "reuse chains is not decided.")
ASSUMPTIONS = ["BTreeMap iteration order is the key order"]

REORDER = r"Iterator>?::(filter|filter_map|rev|skip|skip_while|take|take_while|step_by|chain|zip|flat_map|flatten|peekable|scan)$|sort|dedup|retain|reverse|swap_remove|remove$"
PRESERVE = r"Iterator>?::(map|cloned|copied|by_ref|inspect|collect)$|IntoIterator>?::into_iter$|::iter$|::keys$|::values$|Deref>?::deref$|::as_slice$|Clone>?::clone$|::to_vec$|::iter_mut$"


def chain_to_source(fb, f, enum_call):
    """walk back from the receiver of enumerate(): returns (source description, [offending calls])"""
    bad = []
    cur = op_place(enum_call.args[0]).local
    for _ in range(30):
        if 1 <= cur <= f.argc:
            return ("param", f.local_ty(cur)), bad
        ds = local_defs(f, cur)
        if len(ds) != 1:
            return ("multi", f.local_ty(cur)), bad
        d = ds[0]
        if hasattr(d, "rv"):
            rs = d.reads()
            if d.rv in ("use", "ref", "copy_for_deref") and rs:
                cur = rs[0].local
                continue
            return ("stmt:" + d.rv, f.local_ty(cur)), bad
        name = (d.declared or "") + "|" + (d.callee or "")
        if re.search(REORDER, name):
            bad.append(d)
        elif not re.search(PRESERVE, name):
            return ("call:" + (d.callee or "?"), f.local_ty(cur)), bad
        a = op_place(d.args[0]) if d.args else None
        if a is None:
            return ("call:" + (d.callee or "?"), f.local_ty(cur)), bad
        cur = a.local
    return ("deep", ""), bad


def run(cx):
    fb = cx.mir(*PRINTER_CRATES)
    producers = []
    for f in fb.fns.values():
        if f.crate != "artifact_content" or not re.search(r"(entrypoint_artifact|reader_ast)\.rs$", f.file):
            continue
        for t in f.calls():
            if re.search(r"Iterator>?::enumerate$", t.declared or t.callee or ""):
                aty = " ".join(t.j.get("atys", []))
                if re.search(r"PathToRefetchField|RootRefetchedPath|RefetchedPathsMap", aty):
                    producers.append((f, t))
    cx.floor("R25.index-space producers of refetch indices", len(producers), 4)
    for f, t in producers:
        src, bad = chain_to_source(fb, f, t)
        owner = f.root or f.id
        k = sum(1 for g, x in producers if (g.root or g.id) == owner and (g is not f or x.bb < t.bb))
        cx.ob("R25.index-space", "%s|enumerate#%d" % (owner, k), not bad,
              "a refetch index is taken from an enumeration that was reordered or thinned out (%s) before "
              "enumerate(): this producer numbers the refetch queries differently from the others, so a reference "
              "resolves to another field's query" % [((x.declared or x.callee) or "?").split("::")[-1] for x in bad],
              f.loc(t.line), detail="enumerates %s" % (src,))
    # the map type behind all of them is ordered
    al = [a for k, a in fb.aliases.items() if k.endswith("::RefetchedPathsMap")]
    if not al:
        raise AnchorError("RefetchedPathsMap alias not found")
    cx.ob("R25.ordered", "RefetchedPathsMap|is-btreemap", al[0]["ty"].startswith("std::collections::BTreeMap<"),
          "the refetch path map is not a BTreeMap (%s): its enumeration order is not stable" % al[0]["ty"][:60],
          "crates/isograph_schema/src/create_merged_selection_set.rs")
    # the Vec enumerated by the entrypoint generator is built from the map without reordering
    g = fb.one(r"entrypoint_artifact::generate_entrypoint_artifacts_with_client_scalar_selectable_traversal_result$")
    col = [t for t in g.calls() if re.search(r"Iterator>?::collect$", t.declared or t.callee or "") and re.search(
        r"RootRefetchedPath", g.local_ty(t.dst.local) if t.dst is not None else "")]
    cx.floor("R25.index-space refetch vector construction", len(col), 1)
    for t in col:
        src, bad = chain_to_source(fb, g, t)
        cx.ob("R25.index-space", g.id + "|refetch-vector-built-in-map-order", not bad and "refetch_paths" in str(
            [p.fields() for d in g.stmts() for p in d.reads() if "refetch_paths" in p.fields()][:1]),
            "the vector of refetch queries is not built by an order-preserving pass over traversal_state.refetch_paths "
            "(%s)" % [((x.declared or x.callee) or "?").split("::")[-1] for x in bad], g.loc(t.line))
    # file names and imports use the same index
    syn = cx.syn()
    names = [m for m in syn["macros"] if m["file"].endswith(("entrypoint_artifact.rs", "imperatively_loaded_fields.rs"))
             and m.get("template") and "refetch" in m["template"].lower()]
    cx.count(len(names))
