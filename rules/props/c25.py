"""C25 — Refetch references resolve to the refetch query for that field."""
import re
from rulelib import *
from factbase import AnchorError, op_place, op_const
import samesrc
from props.printer_shared import PRINTER_CRATES

TITLE = "Refetch references resolve to the refetch query for that field"
TECHNIQUE = "index-space rule: every producer of a refetch-query index enumerates the same ordered map without filter/sort/dedup in between (MIR call chains) + type-shape rule"
EXPLANATION = (
    "Refetch queries are referred to by position. The producers of such positions - the enumerate() that names the "
    "__refetch__N artifacts, the enumerate() that writes the refetchQueryN imports and their array positions, "
    "find_imperatively_fetchable_query_index and get_nested_refetch_query_text in the reader generator - must all "
    "enumerate the refetch path map (a BTreeMap, hence one stable order) directly: between the map iteration "
    "(iter / keys / into_iter, or a Vec collected from it by an order-preserving map) and enumerate() there is no "
    "filter, sort, dedup, rev, skip, take or chain. The file-name template and the import template use the same "
    "index placeholder shape (__refetch__{index}). That the composed index lists select the right query along "
    "reuse chains is not decided.")
ASSUMPTIONS = ["BTreeMap iteration order is the key order"]

REORDER = r"Iterator>?::(filter|filter_map|rev|skip|skip_while|take|take_while|step_by|chain|zip|flat_map|flatten|peekable|scan)$|sort|dedup|retain|reverse|swap_remove|remove$"
PRESERVE = r"Iterator>?::(map|cloned|copied|by_ref|inspect|collect)$|IntoIterator>?::into_iter$|::iter$|::keys$|::values$|Deref>?::deref$|::as_slice$|Clone>?::clone$|::to_vec$|::iter_mut$"


MUTATE = r"sort|dedup|retain|reverse|swap_remove|::remove$|truncate|drain|::insert$|::push$|::extend|::pop$|::clear$|::append$"


def mutators(f, local):
    """calls taking `&mut local` (directly or via a reborrow)"""
    out = []
    refs = set()
    for s in f.stmts():
        if s.rv == "ref" and s.j.get("mut") and s.place is not None and s.dst is not None and not s.dst.proj:
            if s.place.local == local or (s.place.local in refs and "*" in s.place.proj):
                refs.add(s.dst.local)
    for _ in range(4):
        for t in f.calls():
            if re.search(r"deref_mut$|as_mut_slice$|as_mut$|borrow_mut$", t.callee or "") and t.dst is not None and not t.dst.proj:
                if any(a is not None and not a.proj and a.local in refs for a in t.arg_places()):
                    refs.add(t.dst.local)
        for s in f.stmts():
            if s.rv in ("ref", "use") and s.place is not None and s.dst is not None and not s.dst.proj and s.place.local in refs:
                refs.add(s.dst.local)
    for t in f.calls():
        if re.search(r"deref_mut$|as_mut_slice$|as_mut$|borrow_mut$", t.callee or ""):
            continue
        for a in t.arg_places():
            if a is not None and not a.proj and a.local in refs:
                out.append(t)
    return out


def chain_to_source(fb, f, enum_call, visited=None):
    """walk back from the receiver of enumerate(): returns (source description, [offending calls])"""
    bad = []
    cur = op_place(enum_call.args[0]).local
    for _ in range(30):
        if visited is not None:
            visited.append(cur)
        for m in mutators(f, cur):
            if re.search(MUTATE, (m.declared or "") + "|" + (m.callee or "")) and m is not enum_call:
                bad.append(m)
        if 1 <= cur <= f.argc:
            return ("param", f.local_ty(cur)), bad
        ds = local_defs(f, cur)
        if len(ds) != 1:
            return ("multi", f.local_ty(cur)), bad
        d = ds[0]
        if hasattr(d, "rv"):
            rs = d.reads()
            if d.rv in ("use", "ref", "copy_for_deref") and rs:
                cur = rs[0].local
                continue
            return ("stmt:" + d.rv, f.local_ty(cur)), bad
        name = (d.declared or "") + "|" + (d.callee or "")
        if re.search(REORDER, name):
            bad.append(d)
        elif not re.search(PRESERVE, name):
            return ("call:" + (d.callee or "?"), f.local_ty(cur)), bad
        a = op_place(d.args[0]) if d.args else None
        if a is None:
            return ("call:" + (d.callee or "?"), f.local_ty(cur)), bad
        cur = a.local
    return ("deep", ""), bad


def set_and_order(fb, f, local, depth):
    """Is the collection in `local` (0 = return place) a sorted sequence of distinct keys? -> (distinct, ordered, trail)"""
    distinct = ordered = False
    trail = []
    cur = local
    for _ in range(30):
        ty = f.local_ty(cur)
        trail.append(ty.split("<")[0].split("::")[-1])
        if re.search(r"collections::(BTreeSet|BTreeMap)<|btree_(set|map)::", ty):
            return True, True, trail
        if re.search(r"collections::(HashSet|HashMap)<|hash_(set|map)::", ty):
            distinct = True
        for m in mutators(f, cur):
            n = (m.declared or "") + "|" + (m.callee or "")
            if re.search(r"::sort(_unstable)?(_by|_by_key)?$", m.callee or ""):
                ordered = True
            if re.search(r"::dedup", n):
                distinct = True
        if 1 <= cur <= f.argc:
            break
        ds = local_defs(f, cur)
        if len(ds) != 1:
            break
        d = ds[0]
        if hasattr(d, "rv"):
            rs = d.reads()
            if d.rv in ("use", "ref", "copy_for_deref") and rs:
                cur = rs[0].local
                continue
            break
        name = (d.declared or "") + "|" + (d.callee or "")
        if re.search(PRESERVE, name) and d.args and op_place(d.args[0]) is not None:
            cur = op_place(d.args[0]).local
            continue
        g = fb.fns.get(d.callee)
        if g is not None and depth > 0:
            trail.append("-> " + g.name)
            d2, o2, t2 = set_and_order(fb, g, 0, depth - 1)
            return distinct or d2, ordered or o2, trail + t2
        break
    return distinct, ordered, trail


def run(cx):
    fb = cx.mir(*PRINTER_CRATES)
    producers = []
    for f in fb.fns.values():
        if f.crate != "artifact_content" or not re.search(r"(entrypoint_artifact|reader_ast)\.rs$", f.file):
            continue
        for t in f.calls():
            if re.search(r"Iterator>?::enumerate$", t.declared or t.callee or ""):
                aty = " ".join(t.j.get("atys", []))
                if re.search(r"PathToRefetchField|RootRefetchedPath|RefetchedPathsMap", aty):
                    producers.append((f, t))
    cx.floor("R25.index-space producers of refetch indices", len(producers), 4)
    for f, t in producers:
        src, bad = chain_to_source(fb, f, t)
        owner = f.root or f.id
        k = sum(1 for g, x in producers if (g.root or g.id) == owner and (g is not f or x.bb < t.bb))
        cx.ob("R25.index-space", "%s|enumerate#%d" % (owner, k), not bad,
              "a refetch index is taken from an enumeration that was reordered or thinned out (%s) before "
              "enumerate(): this producer numbers the refetch queries differently from the others, so a reference "
              "resolves to another field's query" % [((x.declared or x.callee) or "?").split("::")[-1] for x in bad],
              f.loc(t.line), detail="enumerates %s" % (src,))
    # the map type behind all of them is ordered
    al = [a for k, a in fb.aliases.items() if k.endswith("::RefetchedPathsMap")]
    if not al:
        raise AnchorError("RefetchedPathsMap alias not found")
    cx.ob("R25.ordered", "RefetchedPathsMap|is-btreemap", al[0]["ty"].startswith("std::collections::BTreeMap<"),
          "the refetch path map is not a BTreeMap (%s): its enumeration order is not stable" % al[0]["ty"][:60],
          "crates/isograph_schema/src/create_merged_selection_set.rs")
    # the Vec enumerated by the entrypoint generator is built from the map without reordering
    g = fb.one(r"entrypoint_artifact::generate_entrypoint_artifacts_with_client_scalar_selectable_traversal_result$")
    col = [t for t in g.calls() if re.search(r"Iterator>?::collect$", t.declared or t.callee or "") and re.search(
        r"RootRefetchedPath", g.local_ty(t.dst.local) if t.dst is not None else "")]
    cx.floor("R25.index-space refetch vector construction", len(col), 1)
    for t in col:
        src, bad = chain_to_source(fb, g, t)
        cx.ob("R25.index-space", g.id + "|refetch-vector-built-in-map-order", not bad and "refetch_paths" in str(
            [p.fields() for d in g.stmts() for p in d.reads() if "refetch_paths" in p.fields()][:1]),
            "the vector of refetch queries is not built by an order-preserving pass over traversal_state.refetch_paths "
            "(%s)" % [((x.declared or x.callee) or "?").split("::")[-1] for x in bad], g.loc(t.line))
    # ---- the parent's usedRefetchQueries list is the child's index space: sorted, distinct paths ---------
    h = fb.one(r"reader_ast::refetched_paths_for_client_scalar_selectable$")
    distinct, ordered, why = set_and_order(fb, h, 0, 3)
    cx.ob("R25.used-refetch-queries", h.id + "|child-index-space-is-sorted-distinct-paths", distinct and ordered,
          "usedRefetchQueries is read positionally with the child's local refetch index, which is a rank in the child's "
          "RefetchedPathsMap (sorted, one entry per path); the list built here is %s%s (%s)" % (
              "" if distinct else "not de-duplicated ", "" if ordered else "not sorted", why), h.loc(h.lo))
    # file names and imports use the same index
    syn = cx.syn()
    names = [m for m in syn["macros"] if m["file"].endswith(("entrypoint_artifact.rs", "imperatively_loaded_fields.rs"))
             and m.get("template") and "refetch" in m["template"].lower()]
    cx.count(len(names))
