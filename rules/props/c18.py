"""C18 — After a successful compile the artifact directory equals the artifacts."""
import re
from rulelib import *
from factbase import AnchorError, op_place, op_const
from props.fs_shared import *

TITLE = "After a successful compile the artifact directory equals the artifacts"
TECHNIQUE = "typestate over the planned operation list (MIR dominance), exhaustive-match + dataflow rules on the applier"
EXPLANATION = (
    "In FileSystemState::recreate_all (the planner used whenever no in-memory state exists) every pushed WriteFile "
    "must be dominated by a pushed CreateDirectory for the directory the file is joined onto, counted from the "
    "DeleteDirectory(root) that opens the list (zero-iteration paths of earlier loops included) - unless the "
    "applier's WriteFile arm creates the parent itself. In diff, a WriteFile into a selectable directory is preceded "
    "in the same iteration by the CreateDirectory guarded by 'no old entry'; writes are skipped only when old and new "
    "hashes are equal; every old file/selectable/entity absent from the new state gets a delete. The applier matches "
    "all FileSystemOperation variants without wildcard, each arm reaches the corresponding std::fs call, and "
    "WriteFile writes artifacts[idx].file_content for the idx carried by the operation. Equality of directory and "
    "artifact set after a run is not decided.")
ASSUMPTIONS = ["create_dir_all creates missing parents; remove_dir_all removes the whole subtree"]


def path_identity(fn, local, depth=12):
    """Identity of the directory a PathBuf/&Path local denotes: ('arg', n) for a function argument,
    ('join', bb) for the result of a particular Path::join call."""
    seen = set()
    cur = local
    while depth > 0:
        depth -= 1
        if cur in seen:
            return None
        seen.add(cur)
        if 1 <= cur <= fn.argc:
            return ("arg", cur)
        defs = local_defs(fn, cur)
        if len(defs) != 1:
            return None
        d = defs[0]
        if hasattr(d, "rv"):
            rs = d.reads()
            if d.rv in ("use", "ref", "copy_for_deref", "cast") and rs:
                cur = rs[0].local
                continue
            return None
        if term_calls(d, r"path::Path::join$"):
            return ("join", d.bb)
        if term_calls(d, r"Clone>::clone$|clone::Clone::clone$|Deref>::deref$|Path::to_path_buf$|AsRef<.*>>::as_ref$|ToOwned>::to_owned$"):
            a = op_place(d.args[0])
            if a is None:
                return None
            cur = a.local
            continue
        return None
    return None


def parent_identity(fn, path_local):
    """Identity of the directory a file path (result of dir.join(name)) lives in."""
    ident = path_identity(fn, path_local)
    if ident is None or ident[0] != "join":
        return None
    j = fn.blocks[ident[1]].term
    a = op_place(j.args[0])
    return path_identity(fn, a.local) if a is not None else None


def sibling_region(fn, sw, variant):
    import sibling
    return sibling.arm_regions(fn, sw).get(variant, set())


def ops_pushed(fn):
    """(aggregate stmt, push block) for every FileSystemOperation constructed and pushed."""
    out = []
    for a in aggregates(fn, r"^common_lang_types::.*FileSystemOperation$"):
        out.append(a)
    return out


def run(cx):
    fb = cx.mir("artifact_content", "isograph_compiler", "common_lang_types")
    ap = fb.one(r"isograph_compiler::write_artifacts::apply_file_system_operations$")
    ap_fns = fb.with_closures(ap)

    # ---- R18.all-ops-applied -------------------------------------------------
    sws = [s for s in discr_switches(ap) if (s["adt"] or "").endswith("FileSystemOperation")]
    if len(sws) != 1:
        raise AnchorError("applier: expected one match over FileSystemOperation")
    sw = sws[0]
    cx.ob("R18.all-ops-applied", ap.id + "|no-wildcard", not sw["wildcard"] and len(sw["arms"]) >= 4,
          "the applier does not match every FileSystemOperation variant explicitly", ap.loc())
    want = {"DeleteDirectory": r"^std::fs::remove_dir_all$", "CreateDirectory": r"^std::fs::create_dir_all$",
            "WriteFile": r"^std::fs::write$", "DeleteFile": r"^std::fs::remove_file$"}
    nxt = blocks_calling(ap, r"Iterator>::next$")
    cone = owner_cone(fb, [ap.id], crates={"isograph_compiler"})
    for v, pat in want.items():
        if v not in sw["arms"]:
            cx.ob("R18.all-ops-applied", ap.id + "|arm-" + v, False, "variant %s is not handled" % v, ap.loc())
            continue
        others = set()
        for o, tg in sw["arms"].items():
            if o != v:
                others |= reachable_from(ap, tg, stop_blocks=nxt)
        region = reachable_from(ap, sw["arms"][v], stop_blocks=nxt) - others
        lifted = set(lifted_blocks(fb, ap, lambda x, g, pat=pat: not hasattr(x, "rv") and getattr(x, "op", None) == "call" and re.search(pat, x.callee or "") is not None, cone))
        hit = [b for b in region if b in lifted]
        cx.ob("R18.all-ops-applied", ap.id + "|arm-" + v, bool(hit),
              "the %s operation does not reach the corresponding file-system call" % v, ap.loc())
    # the function that performs the write: the applier itself or a private helper only it calls
    W = None
    for g in cone_fns(fb, cone):
        if any(term_calls(t, r"^std::fs::write$") for t in g.calls()):
            W = g
    creates_parent = False
    if W is not None:
        wr = [t for t in W.calls() if term_calls(t, r"^std::fs::write$")]
        # content written is artifacts[op.idx].file_content
        a = op_place(wr[0].args[1])
        is_content = lambda f_: (lambda d: hasattr(d, "rv") and any("file_content" in p.fields() for p in d.reads()))
        okc = a is not None and local_flows_from(W, a.local, is_content(W), 10) is not None
        if not okc and a is not None and W is not ap:
            import samesrc
            pr = samesrc.producer(W, a.local)
            if pr[0] == "param":
                for t in ap.calls():
                    if t.callee == W.id and op_place(t.args[pr[1] - 1]) is not None:
                        okc = local_flows_from(ap, op_place(t.args[pr[1] - 1]).local, is_content(ap), 10) is not None
        getc = [t for t in ap.calls() if term_calls(t, r"slice::<impl \[T\]>::get$")]
        okidx = bool(getc) and any(op_place(t.args[1]) is not None and local_flows_from(
            ap, op_place(t.args[1]).local, lambda d: hasattr(d, "rv") and any("idx" in p.fields() for p in d.reads()), 6)
            is not None or (op_place(t.args[1]) is not None and "idx" in op_place(t.args[1]).fields()) for t in getc)
        cx.ob("R18.all-ops-applied", ap.id + "|writes-indexed-content", okc and okidx,
              "WriteFile must write artifacts[idx].file_content for the index carried by the operation", W.loc(wr[0].line))
        # the write makes sure the file's directory exists: every path from the WriteFile arm (or from the helper's
        # entry) to fs::write passes create_dir_all(path.parent()) or the arm where the path has no parent
        start = sw["arms"].get("WriteFile") if W is ap else 0
        region = reachable_from(W, start, stop_blocks=nxt if W is ap else ())
        cds = [b for b in region if blk_calls(W.blocks[b], r"^std::fs::create_dir_all$")]
        no_parent = []
        for t in W.calls():
            if term_calls(t, r"path::Path::parent$") and t.bb in region:
                s2 = switch_on_call_result(W, t)
                if s2 is not None and "None" in s2["arms"]:
                    no_parent.append(s2["arms"]["None"])
        if start is not None and cds:
            creates_parent = path_without(W, start, [wr[0].bb], cds + no_parent) is None

    # ---- R18.parent-exists (recreate_all) ---------------------------------------
    rc = fb.one(r"artifact_content::file_system_state::FileSystemState::recreate_all$")
    ops = ops_pushed(rc)
    writes = [a for a in ops if a.j["variant"] == "WriteFile"]
    creates = [a for a in ops if a.j["variant"] == "CreateDirectory"]
    deletes = [a for a in ops if a.j["variant"] == "DeleteDirectory"]
    cx.floor("R18.parent-exists WriteFile pushes in recreate_all", len(writes), 2)
    create_ids = []
    for c in creates:
        p = op_place(c.ops[0])
        create_ids.append((path_identity(rc, p.local) if p is not None else None, c))
    # first operation: DeleteDirectory(root) dominating every other push
    first_ok = bool(deletes) and path_identity(rc, op_place(deletes[0].ops[0]).local) == ("arg", 2) and all(
        rc.dominates(deletes[0].bb, a.bb) for a in ops)
    cx.ob("R19.fresh-recreates" if cx.pid == "C19" else "R18.parent-exists", rc.id + "|starts-with-delete-root", first_ok,
          "recreate_all must open the operation list with DeleteDirectory(artifact directory)", rc.loc())
    for i, w in enumerate(writes):
        p = op_place(w.ops[0])
        par = parent_identity(rc, p.local) if p is not None else None
        where = "root" if par == ("arg", 2) else "nested"
        ok = creates_parent
        if not ok and par is not None:
            ok = any(cid == par and rc.dominates(c.bb, w.bb) for cid, c in create_ids)
        cx.ob("R18.parent-exists", "%s|write-%s-has-directory" % (rc.id, where), ok,
              "recreate_all plans DeleteDirectory(root) and then a WriteFile into the %s directory without a "
              "CreateDirectory for it on every path (and the applier does not create parents): with no nested "
              "artifact the root files cannot be written" % where, rc.loc(w.line),
              detail="parent identity %s" % (par,))

    # ---- diff: local clauses -------------------------------------------------------
    df = fb.one(r"artifact_content::file_system_state::FileSystemState::diff$")
    dops = ops_pushed(df)
    dwrites = [a for a in dops if a.j["variant"] == "WriteFile"]
    dcreates = [a for a in dops if a.j["variant"] == "CreateDirectory"]
    cx.floor("R18.diff WriteFile pushes", len(dwrites), 2)
    dcreate_ids = [(path_identity(df, op_place(c.ops[0]).local), c) for c in dcreates]
    for w in dwrites:
        par = parent_identity(df, op_place(w.ops[0]).local)
        if par == ("arg", 3):
            continue  # root file: the root exists because a previous compile's state exists
        ok = creates_parent or any(cid == par and w.bb in df.reachable(c.bb) for cid, c in dcreate_ids)
        cx.ob("R18.parent-exists", df.id + "|nested-write-has-create", ok,
              "diff writes into a selectable directory for which it never plans a CreateDirectory", df.loc(w.line))
    # the CreateDirectory in diff is guarded by 'old has no entry for this selectable'
    for cid, c in dcreate_ids:
        isn = [t for t in df.calls() if term_calls(t, r"Option::<T>::is_none$") and df.dominates(t.bb, c.bb)]
        cx.ob("R18.parent-exists", df.id + "|create-guarded-by-absence", bool(isn),
              "the CreateDirectory for a selectable must be planned exactly when the old state has no such "
              "selectable", df.loc(c.line))
    # write-iff-changed. Two idioms decide whether a file is written: `old.map(|h| h != new).unwrap_or(true)` and a
    # direct comparison of the two hashes in the body (`Some(h) if h == new => {}`); both are decision points.
    uo = [t for t in df.calls() if term_calls(t, r"Option::<T>::unwrap_or$")]
    HASH_CMP = lambda t: re.search(r"PartialEq(<.*>)?>?::(eq|ne)$", t.declared or "") and "ArtifactHash" in " ".join(t.j.get("atys", []))
    direct = [t for t in df.calls() if HASH_CMP(t)]
    # third idiom: a private predicate `fn file_needs_write(old: Option<..>, new_hash) -> bool`
    dcone = owner_cone(fb, [df.id], crates={"artifact_content"})
    helper_calls = []
    for t in df.calls():
        h = fb.fns.get(t.callee)
        if h is not None and h.id in dcone and h is not df and (h.ret or "") == "bool" and any(HASH_CMP(x) for g_ in fb.with_closures(h) for x in g_.calls()):
            helper_calls.append((t, h))
    cx.floor("R18.write-iff-changed decision points (should_write computations / hash comparisons)", len(uo) + len(direct) + len(helper_calls), 2)
    for k, (t, h) in enumerate(helper_calls):
        # absent old file => true
        absent_true = False
        for sw_ in discr_switches(h):
            if "None" in sw_["arms"]:
                reg = sibling_region(h, sw_, "None")
                for b_ in reg:
                    for st_ in h.blocks[b_].stmts:
                        if st_.dst is not None and st_.dst.local == 0 and st_.ops and (op_const(st_.ops[0]) or {}).get("v") is True:
                            absent_true = True
        cx.ob("R18.write-iff-changed", "%s|absent-old-file-is-written|helper#%d" % (df.id, k), absent_true,
              "a file that did not exist in the old state must be written (%s must answer true for None)" % h.name, h.loc())
        br = call_bool_branch(df, t)
        guarded = br is not None and any(df.dominates(br[0], w.bb) for w in dwrites)
        cx.ob("R18.write-iff-changed", "%s|write-guarded-by-predicate#%d" % (df.id, k), guarded,
              "the answer of %s does not guard a WriteFile" % h.name, df.loc(t.line), nontrivial=False)
    for t in uo:
        c = op_const(t.args[1])
        cx.ob("R18.write-iff-changed", "%s|absent-old-file-is-written|L%d" % (df.id, [x.bb for x in uo].index(t.bb)),
              c is not None and c.get("v") is True,
              "a file that did not exist in the old state must be written", df.loc(t.line))
    for k, t in enumerate(direct):
        br = call_bool_branch(df, t)
        if not br:
            continue
        same_t = br[0] if (t.declared or "").endswith("eq") else br[1]
        written = [w for w in dwrites if df.dominates(same_t, w.bb)]
        cx.ob("R18.write-iff-changed", "%s|equal-hash-not-rewritten#%d" % (df.id, k), not written,
              "a file whose content hash is unchanged is written again", df.loc(t.line))
    cmp_ok = len(direct) + len(helper_calls)
    for cl in fb.closures_of(df):
        for t in cl.calls():
            if re.search(r"PartialEq(<.*>)?>?::ne$", t.declared or "") and "ArtifactHash" in " ".join(t.j.get("atys", [])):
                cmp_ok += 1
    cx.ob("R18.write-iff-changed", df.id + "|compares-hashes", cmp_ok >= 2,
          "whether a file is written must be decided by comparing the old and new content hashes", df.loc())
    from props.fs_shared import write_index_rule
    write_index_rule(cx, fb, "R18.write-iff-changed")
    # deletions: every Delete* push exists (entity dir, selectable dir, file, root file)
    dd = [a for a in dops if a.j["variant"] == "DeleteDirectory"]
    dfl = [a for a in dops if a.j["variant"] == "DeleteFile"]
    cx.ob("R18.deletes", df.id + "|plans-deletes", len(dd) >= 2 and len(dfl) >= 2,
          "diff must plan deletion of vanished entity directories, selectable directories, nested files and root "
          "files (found %d directory and %d file deletions)" % (len(dd), len(dfl)), df.loc())
    # a planned deletion depends on membership in the new state only: no size comparison decides whether the
    # deletion loop runs ("the selectable did not shrink" does not mean that no file went away)
    LEN = r"(HashMap|HashSet|BTreeMap|Vec)::<.*>::len$|::len$"
    size_closures = set()
    for c_ in fb.closures_of(df):
        for st_ in c_.stmts():
            if st_.rv == "binop" and st_.j["binop"] in ("Lt", "Le", "Gt", "Ge") and any(
                    op_place(o_) is not None and local_flows_from(c_, op_place(o_).local, lambda x: not hasattr(x, "rv") and re.search(LEN, x.callee or ""), 4) is not None
                    for o_ in st_.ops):
                size_closures.add(c_.id)
    for k_, a in enumerate(dfl + dd):
        foreign = []
        for b_ in df.blocks:
            t_ = b_.term
            if t_.op != "switch" or not df.dominates(b_.i, a.bb) or b_.i == a.bb:
                continue
            pl_ = op_place(t_.j["discr"])
            if pl_ is None:
                continue
            if size_closures and local_flows_from(df, pl_.local, lambda x: hasattr(x, "rv") and x.rv == "aggregate" and x.j.get("def") in size_closures, 6) is not None:
                foreign.append("closure at L%d" % t_.line)
            for d_ in local_defs(df, pl_.local):
                if hasattr(d_, "rv") and d_.rv == "binop" and d_.j["binop"] in ("Lt", "Le", "Gt", "Ge"):
                    if any(op_place(o_) is not None and local_flows_from(df, op_place(o_).local, lambda x: not hasattr(x, "rv") and re.search(
                            r"(HashMap|HashSet|BTreeMap|Vec)::<.*>::len$|::len$", x.callee or ""), 4) is not None for o_ in d_.ops):
                        foreign.append("L%d" % d_.line)
        cx.ob("R18.deletes", "%s|%s#%d-decided-by-membership-only" % (df.id, a.j["variant"], k_), not foreign,
              "whether a stale %s is planned depends on a comparison of collection sizes (%s): a directory that loses one "
              "file and gains another keeps the stale file" % (a.j["variant"], foreign), df.loc(a.line), nontrivial=False)
    # the survival test that guards a directory deletion is keyed by every name component of that directory
    for a in dd:
        pth = op_place(a.ops[0])
        # depth = number of Path::join hops between the deleted path and the artifact directory argument
        depth, cur = 0, pth.local
        for _ in range(6):
            ident = path_identity(df, cur)
            if ident is None or ident[0] != "join":
                break
            depth += 1
            j = df.blocks[ident[1]].term
            cur = op_place(j.args[0]).local
        guards = [t for t in df.calls() if term_calls(t, r"HashSet::<T, S, A>::contains$|HashMap::<K, V, S, A>::contains_key$")
                  and df.dominates(t.bb, a.bb)]
        if not guards:
            cx.ob("R18.deletes", "%s|dir-delete-depth%d-guarded" % (df.id, depth), False,
                  "a directory deletion is not guarded by a survival test", df.loc(a.line))
            continue
        g = max(guards, key=lambda t: len(df.dominators()[t.bb]))
        kty = (g.j.get("atys") or ["", ""])[1]
        comps = len(re.findall(r"\b(EntityName|SelectableName|ArtifactFileName)\b", kty))
        cx.ob("R18.deletes", "%s|dir-delete-depth%d-key-arity" % (df.id, depth), comps == depth,
              "the survival set consulted before deleting a directory at depth %d is keyed by %d name component(s) "
              "(%s): a directory whose last name also exists under another parent is considered alive and its stale "
              "artifacts stay on disk" % (depth, comps, kty), df.loc(g.line))
    # who may write CompilerState.file_system_state
    fbc = cx.mir("isograph_compiler", "isograph_lsp", "isograph_cli")
    n = 0
    for h in fbc.fns.values():
        if "::tests::" in h.id:
            continue
        hits = []
        for x in stores_to_field(h, "file_system_state"):
            # forgetting the state (storing None) is always safe: the next compile recreates everything
            if hasattr(x, "rv") and x.ops and op_place(x.ops[0]) is not None and any(
                    hasattr(d, "rv") and d.rv == "aggregate" and d.j.get("variant") == "None"
                    for d in local_defs(h, op_place(x.ops[0]).local)):
                continue
            hits.append(x)
        for t in h.calls():
            if term_calls(t, r"Option::<T>::(replace|insert|get_or_insert|get_or_insert_with)$|mem::(replace|swap)$"):
                a0 = op_place(t.args[0])
                if a0 is not None and local_flows_from(h, a0.local, lambda d: hasattr(d, "rv") and d.rv == "ref" and
                                                       d.place is not None and "file_system_state" in d.place.fields(), 4) is not None:
                    hits.append(t)
        for x in hits:
            n += 1
            owner = h.root or h.id
            cx.ob("R18.state-owners", owner + "|writes-file_system_state", owner.endswith("batch_compile::compile"),
                  "the in-memory FileSystemState is written outside compile(): a state that describes a different "
                  "compiler state / artifact directory is diffed against, so required files are never written",
                  h.loc(x.line))
    cx.count(n)
    # state construction keys by (entity, selectable, file name) and hashes the content
    fr = fb.methods("from", impl_for=r"FileSystemState$", trait=r"From$")
    if len(fr) != 1:
        raise AnchorError("From<&[ArtifactPathAndContent]> for FileSystemState not found")
    h = [t for t in fr[0].calls() if term_calls(t, r"operation_text::hash$")]
    okh = len(h) == 1 and local_flows_from(fr[0], op_place(h[0].args[0]).local, lambda d: hasattr(d, "rv") and any(
        "file_content" in p.fields() for p in d.reads()), 6) is not None
    cx.ob("R18.write-iff-changed", fr[0].id + "|hash-covers-content", okh,
          "the change-detection hash must be computed over the artifact's file_content", fr[0].loc())
