"""C06 — The lock-free arena hands out each slot once and reads back what was added."""
import re
from rulelib import *
from factbase import AnchorError, op_place, op_const

TITLE = "The lock-free arena hands out each slot once and reads back what was added"
TECHNIQUE = "MIR atomic-access table + lock-region / ordering rules over relay-crates/intern/src/atomic_arena.rs"
EXPLANATION = (
    "Decides the atomic protocol of AtomicArena from its MIR: next_biased_index is only accessed by load and fetch_add "
    "(no store / swap), and the slot written by add_get derives from the fetch_add result through index(); bucket "
    "pointers are published by exactly one store outside Drop, with Ordering::Release or stronger, performed while "
    "the allocation mutex is held, after a re-check load under that mutex that dominates the allocation; the "
    "unlocked fast-path load is Acquire or stronger; add_get writes the slot exactly once before building the Ref; "
    "Drop rebuilds each bucket with from_raw_parts(ptr, len, cap) where cap is bucket_capacity(a). The behaviour "
    "under the memory model for all interleavings is not decided.")
ASSUMPTIONS = ["std atomics and parking_lot::Mutex behave as documented"]

ORD_RANK = {"Relaxed": 0, "Release": 1, "Acquire": 1, "AcqRel": 2, "SeqCst": 3}


def ordering_of(fn, term, argidx):
    """Name of the Ordering variant passed at argidx (constant aggregate or const)."""
    a = term.args[argidx]
    c = op_const(a)
    if c is not None and c.get("variant"):
        return c["variant"]
    p = op_place(a)
    if p is None:
        return None
    for d in local_defs(fn, p.local):
        if hasattr(d, "rv") and d.rv == "aggregate" and "Ordering" in d.j.get("adt", ""):
            return d.j["variant"]
        if hasattr(d, "rv") and d.rv == "use":
            c = op_const(d.ops[0])
            if c is not None and c.get("variant"):
                return c["variant"]
    return None


def atomic_field_of(fn, term):
    """Name of the struct field whose atomic is the receiver of this call (via `ref (*self).field[..]`)."""
    p = op_place(term.args[0])
    if p is None:
        return None
    seen = set()
    work = [p.local]
    while work:
        l = work.pop()
        if l in seen:
            continue
        seen.add(l)
        for d in local_defs(fn, l):
            if hasattr(d, "rv"):
                for q in d.reads():
                    for fld in q.fields():
                        if fld in ("next_biased_index", "buckets"):
                            return fld
                    work.append(q.local)
            else:
                for q in d.arg_places():
                    if q is not None:
                        work.append(q.local)
    return None


def ref_sites(fb, ag):
    """(block, local holding the biased index) for every Ref built in `ag`: directly, or by a private helper of the
    crate that wraps its parameter into a Ref"""
    import samesrc
    out = []
    for r in aggregates(ag, r"^intern::atomic_arena::Ref$"):
        pl = op_place(r.ops[r.j["fields"].index("biased_index")])
        out.append((r.bb, pl.local if pl is not None else None))
    for t in ag.calls():
        h = fb.fns.get(t.callee)
        if h is None or h.crate != "intern" or h is ag:
            continue
        for r in aggregates(h, r"^intern::atomic_arena::Ref$"):
            pl = op_place(r.ops[r.j["fields"].index("biased_index")])
            pr = samesrc.producer(h, pl.local) if pl is not None else None
            if pr and pr[0] == "param" and op_place(t.args[pr[1] - 1]) is not None:
                out.append((t.bb, op_place(t.args[pr[1] - 1]).local))
            else:
                out.append((t.bb, None))
    return out


def run(cx):
    fb = cx.mir("intern")
    arena = [f for f in fb.fns.values() if f.file.endswith("atomic_arena.rs") and "::tests::" not in f.id
             and "test" not in f.id.split("::")[2:3]]
    ATOMIC = r"sync::atomic::Atomic(U32|Ptr|::<.*>)?(::<.*>)?::(load|store|swap|fetch_add|fetch_sub|compare_exchange|compare_exchange_weak|fetch_update|get_mut|into_inner)$"
    accesses = []
    for f in arena:
        for t in f.calls():
            if t.callee and re.search(ATOMIC, t.callee):
                fld = atomic_field_of(f, t)
                op = t.callee.rsplit("::", 1)[1]
                accesses.append((f, t, fld, op))
    nbi = [(f, t, op) for f, t, fld, op in accesses if fld == "next_biased_index"]
    bkt = [(f, t, op) for f, t, fld, op in accesses if fld == "buckets"]
    cx.floor("R06 atomic accesses to next_biased_index", len(nbi), 3)
    cx.floor("R06 atomic accesses to buckets", len(bkt), 4)
    cx.extra["atomic_access_table"] = [
        {"fn": f.id, "line": t.line, "field": fld, "op": op,
         "ordering": ordering_of(f, t, len(t.args) - 1)} for f, t, fld, op in accesses]

    # ---- R06.rmw -----------------------------------------------------------
    for f, t, op in nbi:
        cx.ob("R06.rmw", "%s|next_biased_index.%s" % (f.id, op), op in ("load", "fetch_add"),
              "next_biased_index is modified other than by fetch_add: two adds can obtain the same slot", f.loc(t.line))
    ag = fb.one(r"intern::atomic_arena::AtomicArena::<'a, T>::add_get$")
    fa = [t for f, t, op in nbi if f is ag and op == "fetch_add"]
    cx.ob("R06.rmw", ag.id + "|allocates-by-fetch_add", len(fa) == 1,
          "add_get must obtain its slot with a single fetch_add", ag.loc())
    if fa:
        c = op_const(fa[0].args[1])
        cx.ob("R06.rmw", ag.id + "|fetch_add-by-one", c is not None and c.get("v") == "1",
              "the slot counter must advance by exactly one per add", ag.loc(fa[0].line))
        # slot pointer derives from fetch_add result via index()
        idx = [t for t in ag.calls() if term_calls(t, r"atomic_arena::index$")]
        ok = len(idx) == 1 and local_flows_from(ag, op_place(idx[0].args[0]).local,
                                                lambda d: d is fa[0]) is not None
        cx.ob("R06.rmw", ag.id + "|slot-from-fetch_add", ok,
              "the written slot is not computed from the value returned by fetch_add", ag.loc())
        # the Ref returned carries the same index
        refs = ref_sites(fb, ag)
        okr = bool(refs) and all(loc_ is not None and local_flows_from(ag, loc_, lambda d: d is fa[0]) is not None for bb_, loc_ in refs)
        cx.ob("R06.rmw", ag.id + "|ref-carries-allocated-index", okr,
              "the returned Ref does not carry the index obtained from fetch_add", ag.loc())

    # ---- R06.len --------------------------------------------------------------
    ln = fb.one(r"intern::atomic_arena::AtomicArena::<'a, T>::len$")
    l_acc = [(t, fld, op) for f, t, fld, op in accesses if f is ln]
    one = len(l_acc) == 1 and l_acc[0][1] == "next_biased_index" and l_acc[0][2] == "load"
    subs = [x for x in ln.stmts() if x.rv == "binop" and x.j["binop"].startswith("Sub")]
    const_sub = len(subs) == 1 and any((op_const(o) or {}).get("v") == "128" or (op_const(o) or {}).get("uneval", "").endswith("MIN_SIZE") for o in subs[0].ops)
    cx.ob("R06.len", ln.id + "|single-monotone-load", one and const_sub,
          "len() must be one load of the monotone slot counter minus the constant bias; combining several loads "
          "(or other shared counters) is not a snapshot, so an observer can see the length decrease", ln.loc(),
          detail="atomic accesses in len: %s; subtractions: %d" % ([(fld, op) for t, fld, op in l_acc], len(subs)))
    # atomics outside the reviewed protocol table are reported in the evidence, not judged
    for f, t, fld, op in accesses:
        if fld is None:
            cx.note("atomic access outside the protocol table: %s %s L%d" % (f.id, op, t.line))

    # ---- R06.publish ---------------------------------------------------------
    stores = [(f, t) for f, t, op in bkt if op in ("store", "swap", "compare_exchange")]
    nondrop = [(f, t) for f, t in stores if f.name != "drop"]
    cx.floor("R06.publish bucket stores outside Drop", len(nondrop), 1)
    for f, t in nondrop:
        o = ordering_of(f, t, len(t.args) - 1)
        cx.ob("R06.publish", f.id + "|bucket-store-owner", f.name == "slice_for_slot_slow",
              "bucket pointers are published outside slice_for_slot_slow", f.loc(t.line))
        cx.ob("R06.publish", f.id + "|bucket-store-ordering", o in ("Release", "AcqRel", "SeqCst"),
              "the bucket pointer is published with Ordering::%s: a reader on another thread may see the pointer "
              "before the allocation it points to" % o, f.loc(t.line))
    fast = fb.one(r"intern::atomic_arena::AtomicArena::<'a, T>::slice_for_slot$")
    fl = [(f, t) for f, t, op in bkt if f is fast and op == "load"]
    cx.ob("R06.publish", fast.id + "|fast-path-load", len(fl) == 1 and ordering_of(fast, fl[0][1], 1) in
          ("Acquire", "AcqRel", "SeqCst"), "the unlocked fast-path load of the bucket pointer must be Acquire",
          fast.loc())
    # slow path is taken exactly when the fast load saw null
    slow_call = blocks_calling(fast, r"slice_for_slot_slow$")
    cx.ob("R06.publish", fast.id + "|falls-back-to-slow", len(slow_call) == 1,
          "a null bucket pointer must fall back to the locked allocation path", fast.loc())

    # ---- R06.double-check --------------------------------------------------------
    s = fb.one(r"intern::atomic_arena::AtomicArena::<'a, T>::slice_for_slot_slow$")
    lock = [t for t in s.calls() if term_calls(t, r"Mutex::<R, T>::lock$")]
    loads = [t for f, t, op in bkt if f is s and op == "load"]
    st = [t for f, t, op in bkt if f is s and op == "store"]
    alloc = [t for t in s.calls() if term_calls(t, r"Vec::<T>::with_capacity$|Vec::<T, A>::with_capacity")]
    if len(lock) != 1:
        raise AnchorError("slice_for_slot_slow: expected exactly one mutex acquisition")
    ok = bool(loads) and bool(st) and bool(alloc)
    for a_ in alloc:
        ok = ok and s.dominates(lock[0].bb, a_.bb) and any(s.dominates(l.bb, a_.bb) and s.dominates(lock[0].bb, l.bb)
                                                           for l in loads)
    for s_ in st:
        ok = ok and s.dominates(lock[0].bb, s_.bb) and any(s.dominates(a_.bb, s_.bb) for a_ in alloc) and any(
            s.dominates(l.bb, s_.bb) and s.dominates(lock[0].bb, l.bb) for l in loads)
    cx.ob("R06.double-check", s.id + "|lock-recheck-allocate-store", ok,
          "the slow path must lock, re-check the bucket, allocate, then store (in that dominance order); otherwise "
          "two threads can both allocate the bucket and one set of slots is lost", s.loc())
    if not (loads and st and alloc):
        return
    sw = None
    nn = [t for t in s.calls() if term_calls(t, r"NonNull::<T>::new$") and s.dominates(loads[0].bb, t.bb)
          and s.dominates(t.bb, alloc[0].bb)]
    if nn:
        sw = switch_on_call_result(s, nn[0])
    ok2 = sw is not None and "Some" in sw["arms"] and alloc[0].bb not in reachable_from(s, sw["arms"]["Some"])
    cx.ob("R06.double-check", s.id + "|existing-bucket-reused", bool(ok2),
          "when the re-check finds a bucket it must be returned without allocating", s.loc())
    # guard held until after the store: no drop of the guard local between lock and store
    gl = lock[0].dst.local
    region = reachable_from(s, lock[0].bb) & {b for b in range(len(s.blocks)) if st[0].bb in s.reachable(b)}
    bad = []
    for b in region:
        blk = s.blocks[b]
        if b == st[0].bb:
            continue
        if blk.term.op == "drop" and blk.term.place.local == gl:
            bad.append("drop L%d" % blk.term.line)
        if blk.term.op == "call" and term_calls(blk.term, r"mem::drop$"):
            a = op_place(blk.term.args[0])
            if a is not None and (a.local == gl or local_flows_from(s, a.local, lambda d: hasattr(d, "rv") and any(
                    p.local == gl for p in d.reads())) is not None):
                bad.append("mem::drop L%d" % blk.term.line)
    cx.ob("R06.double-check", s.id + "|mutex-held-until-store", not bad,
          "the allocation mutex is released before the bucket pointer is stored", s.loc(), detail="; ".join(bad) or None)

    # ---- R06.single-write -----------------------------------------------------------
    writes = [x for x in ag.stmts() if x.dst is not None and x.dst.proj == ("*",) and
              "MaybeUninit" in ag.local_ty(x.dst.local) and not ag.blocks[x.bb].cleanup]
    refs = ref_sites(fb, ag)
    ok = len(writes) == 1 and refs and all(ag.dominates(writes[0].bb, bb_) for bb_, loc_ in refs)
    cx.ob("R06.single-write", ag.id + "|one-write-before-ref", bool(ok),
          "add_get must write the slot exactly once, before the Ref is constructed", ag.loc(),
          detail="writes=%d" % len(writes))
    if writes:
        w = writes[0]
        src = op_place(w.ops[0])
        okv = src is not None and local_flows_from(ag, src.local, lambda d: hasattr(d, "rv") and any(
            p.local == 2 for p in d.reads()) or (not hasattr(d, "rv") and any(
                p is not None and p.local == 2 for p in d.arg_places()))) is not None
        cx.ob("R06.single-write", ag.id + "|writes-the-element", bool(okv),
              "the value written into the slot is not the element passed to add", ag.loc(w.line))
    # get() reads the slot computed by index() from the Ref's own index
    gt = fb.one(r"intern::atomic_arena::AtomicArena::<'a, T>::get$")
    idx = [t for t in gt.calls() if term_calls(t, r"atomic_arena::index$")]
    ok = len(idx) == 1 and local_flows_from(gt, op_place(idx[0].args[0]).local, lambda d: hasattr(d, "rv") and any(
        p.local == 2 and "biased_index" in p.fields() for p in d.reads()) or (not hasattr(d, "rv") and any(
            p is not None and p.local == 2 for p in d.arg_places())), depth=14) is not None
    cx.ob("R06.single-write", gt.id + "|reads-slot-of-ref", bool(ok),
          "get must read the slot addressed by the Ref's biased index", gt.loc())

    # ---- R06.drop ------------------------------------------------------------------------
    d = fb.method("drop", impl_for=r"AtomicArena<'a, T>", trait=r"Drop$")
    frp = [t for t in d.calls() if term_calls(t, r"Vec::<T>::from_raw_parts$|Vec::<T, A>::from_raw_parts")]
    cap = [t for t in d.calls() if term_calls(t, r"atomic_arena::bucket_capacity$")]
    ok = len(frp) == 1 and len(cap) == 1
    if ok:
        c_arg = op_place(frp[0].args[2])
        ok = c_arg is not None and local_flows_from(d, c_arg.local, lambda x: x is cap[0]) is not None
    cx.ob("R06.drop", d.id + "|capacity-is-bucket_capacity", bool(ok),
          "Drop must rebuild each bucket Vec with the capacity it was allocated with", d.loc())
    # len: bucket_capacity(a) for full buckets, (offset of the last allocated slot) + 1 for the last bucket,
    # where the last allocated slot is index(next_biased_index - 1)
    if len(frp) == 1:
        l_arg = op_place(frp[0].args[1])
        idxc = [t for t in d.calls() if term_calls(t, r"atomic_arena::index$")]
        from_cap = l_arg is not None and cap and local_flows_from(d, l_arg.local, lambda x: x is cap[0], 8) is not None
        plus1 = None
        if l_arg is not None:
            plus1 = local_flows_from(d, l_arg.local, lambda x: hasattr(x, "rv") and x.rv == "binop" and
                                     x.j["binop"].startswith("Add") and any(
                                         (op_const(o) or {}).get("v") == "1" for o in x.ops), 8)
        idx_ok = False
        if plus1 is not None and idxc:
            src = [op_place(o) for o in plus1.ops if op_place(o) is not None]
            idx_ok = any(local_flows_from(d, q.local, lambda x: x in idxc, 8) is not None for q in src)
            # and the index() argument is (loaded counter) - 1
            for t in idxc:
                a = op_place(t.args[0])
                sub = local_flows_from(d, a.local, lambda x: hasattr(x, "rv") and x.rv == "binop" and
                                       x.j["binop"].startswith("Sub") and any(
                                           (op_const(o) or {}).get("v") == "1" for o in x.ops), 6) if a else None
                idx_ok = idx_ok and sub is not None
        cx.ob("R06.drop", d.id + "|len-is-last-offset-plus-one-or-capacity", bool(from_cap and plus1 is not None and idx_ok),
              "Drop must rebuild the last bucket with len = offset of the last allocated slot + 1 (slot = "
              "index(next_biased_index - 1)) and full buckets with len = capacity; any other count drops added "
              "elements twice or never (e.g. at a bucket boundary)", d.loc(frp[0].line))
    nulls = [t for f, t, op in bkt if f is d and op == "store"]
    cx.ob("R06.drop", d.id + "|nulls-bucket", len(nulls) == 1, "Drop must null the bucket pointer it freed", d.loc())
