"""C27 — Generated TypeScript types describe the data actually provided."""
import re
from rulelib import *
from factbase import AnchorError, op_place, op_const
import sibling, samesrc
from props.printer_shared import *

TITLE = "Generated TypeScript types describe the data actually provided"
TECHNIQUE = "sibling cross-check of the raw-response-type printer against the query-text printer per variant (MIR) + dataflow of property keys and optionality + CFG must-pass-through of the nullable flag in the type printers"
EXPLANATION = (
    "Claimed for key agreement only. generate_raw_response_type_inner is a third printer over MergedServerSelection: "
    "per variant it must agree with the query-text printer on whether the selection is emitted, it must key each "
    "property by the selection's normalization alias or, without arguments, its name (the same expression the query "
    "printer uses for the response key), recurse into the nested map for linked fields, and print the optional marker "
    "`?` exactly under is_nullable() of the selectable's own target type. The parameter-type printer keys each "
    "property by name_or_alias() of the selection, as the reader AST does. In the type-annotation printers every path "
    "through the Union arm must read the union's nullable flag (necessary condition). The rest of the list / nullable "
    "structure of the types is not decided.")
ASSUMPTIONS = []


def mutators_of(f, local):
    out, refs = [], set()
    for s in f.stmts():
        if s.rv == "ref" and s.j.get("mut") and s.place is not None and s.dst is not None and s.place.local == local:
            refs.add(s.dst.local)
    for t in f.calls():
        for a in t.arg_places():
            if a is not None and not a.proj and a.local in refs:
                out.append(t)
    return out


def fmt_arg_root(f, local):
    """format_args! passes `&(&a, &b)` and reads `.0`, `.1`: resolve a Display argument to the tuple element it names"""
    cur = local
    for _ in range(8):
        ds = local_defs(f, cur)
        if len(ds) != 1 or not hasattr(ds[0], "rv"):
            return cur
        d = ds[0]
        pl = d.place if d.place is not None else (op_place(d.ops[0]) if d.ops else None)
        if d.rv not in ("use", "ref", "copy_for_deref") or pl is None:
            return cur
        idx = [x for x in pl.proj if re.fullmatch(r"\.\d+", x)]
        if idx:
            agg = [x for x in local_defs(f, pl.local) if hasattr(x, "rv") and x.rv == "aggregate"]
            if len(agg) == 1 and int(idx[0][1:]) < len(agg[0].ops) and op_place(agg[0].ops[int(idx[0][1:])]) is not None:
                cur = op_place(agg[0].ops[int(idx[0][1:])]).local
                continue
            return cur
        cur = pl.local
    return cur


def frag_field_direct(f, local):
    for d in local_defs(f, local):
        if hasattr(d, "rv") and d.place is not None and "selection_map" in d.place.fields() and \
                "MergedInlineFragmentSelection" in f.local_ty(d.place.local):
            return True
    return False


def run(cx):
    fb = cx.mir(*PRINTER_CRATES)
    q, qsw = mss_switch(fb, r"graphql_network_protocol::query_text::write_selections_for_query_text$")
    qa = sibling.attributes(fb, q, qsw, r"write_selections_for_query_text$")
    r = fb.one(r"artifact_content::raw_response_type::generate_raw_response_type_inner$")
    sws = [s for s in discr_switches(r) if (s["adt"] or "").endswith("MergedServerSelection")]
    cx.floor("R27.raw-keys matches over MergedServerSelection in the raw response printer", len(sws), 1)
    # the printing match is the one whose ScalarField arm emits
    best = None
    for sw in sws:
        at = sibling.attributes(fb, r, sw, r"generate_raw_response_type_inner$")
        if at.get("ScalarField", {}).get("emits"):
            best = (sw, at)
    if best is None:
        raise AnchorError("raw response printer: no printing match found")
    sw, ra = best
    for v in ("ScalarField", "LinkedField", "ClientObjectSelectable"):
        a, b = qa.get(v), ra.get(v)
        if a is None or b is None:
            raise AnchorError("variant %s missing" % v)
        cx.ob("R27.raw-keys", "variant-%s|emitted-agrees" % v, a["emits"] == b["emits"],
              "the raw response type %s a property for %s selections while the operation %s them" % (
                  "has" if b["emits"] else "has no", v, "requests" if a["emits"] else "does not request"), r.loc())
    for v in ("ScalarField", "LinkedField"):
        b = ra[v]
        uses_alias = any(re.search(r"::normalization_alias$", c) for c in b["calls"])
        cx.ob("R27.raw-keys", "variant-%s|keyed-by-normalization-alias" % v, uses_alias and "name" in b["fields"],
              "the property for a %s is not keyed by normalization_alias() / name: with arguments the server response "
              "key differs from the property name in the type" % v, r.loc())
        opt = any(re.search(r"::is_nullable$", c) for c in b["calls"])
        cx.ob("R27.raw-keys", "variant-%s|optional-iff-nullable" % v, opt,
              "the optional marker of a %s property is not derived from is_nullable() of its target type" % v, r.loc())
    cx.ob("R27.raw-keys", "variant-LinkedField|recurses", ra["LinkedField"]["recurses"] and "selection_map" in ra["LinkedField"]["fields"],
          "the raw response type of a linked field does not describe its nested selections", r.loc())
    # the "?" literal is chosen on the true branch of is_nullable (in the printer or a private helper it calls)
    n = 0
    cone = owner_cone(fb, [r.id], crates={"artifact_content"})
    for rr in cone_fns(fb, cone):
        for t in rr.calls():
            if re.search(r"::is_nullable$", t.callee or ""):
                n += 1
                try:
                    tt, ft = call_bool_branch(rr, t)
                except AnchorError:
                    continue

                def lit_in(b0, rr=rr):
                    out = []
                    for s_ in rr.blocks[b0].stmts:
                        for o in s_.ops:
                            c = op_const(o)
                            if c and "str" in c:
                                out.append(c["str"])
                    return out
                cx.ob("R27.raw-keys", "%s|question-mark-on-nullable#%d" % (r.id, n), "?" in lit_in(tt) and "?" not in lit_in(ft),
                      "`?` is printed for non-nullable (or omitted for nullable) response fields", rr.loc(t.line))
    cx.floor("R27.raw-keys nullability tests", n, 1)
    # ---- R27.param-keys ------------------------------------------------------------------------
    pt = [f for f in fb.fns.values() if f.file.endswith("generate_updatable_and_parameter_type.rs") and
          re.search(r"write_param_type_from_(selection|client_field|scalar|linked)", f.name or "")]
    if not pt:
        pt = [f for f in fb.fns.values() if f.file.endswith("generate_updatable_and_parameter_type.rs") and "write_param_type" in f.name]
    cx.floor("R27.param-keys parameter type writers", len(pt), 1)
    for f in pt:
        calls = {c for g in fb.with_closures(f) for t in g.calls() for c in [t.callee or ""]}
        uses = any(re.search(r"::name_or_alias$", c) for c in calls)
        if any(re.search(r"fmt::format$", c) for c in calls):
            cx.ob("R27.param-keys", f.id + "|keyed-by-name_or_alias", uses or not any(re.search(r"Selection", l["ty"]) for l in f.locals[1:f.argc + 1]),
                  "the parameter type's property name is not name_or_alias() of the selection (what the reader AST "
                  "uses as alias)", f.loc())
    # every property-declaration template of the parameter / updatable types is keyed by name_or_alias()
    import templates, os
    T = templates.Templates(cx.syn(), os.environ.get("VERIF_REPO", "/repo"))
    nkeys = 0
    for m in T.macros_in(r"generate_updatable_and_parameter_type\.rs$"):
        tpl = m.get("template") or ""
        fn_name = m["in"].split("::")[-1]
        if not fn_name.startswith("write_"):
            continue
        mm = re.search(r"(?:readonly |get |set |^)\{\}(?::|\()", tpl)
        if not mm:
            continue
        idx = tpl[:mm.end()].count("{}") - 1 + len(re.findall(r"\{[a-z_]+\}", tpl[:mm.end()]))
        phs = T.placeholders(m)[0]
        anon = [p_ for p_ in phs if not p_[2]]
        k = tpl[:mm.end()].count("{}") - 1
        if k >= len(anon):
            raise AnchorError("placeholder not located in %r" % tpl)
        l, c = anon[k][0], anon[k][1]
        owner = [g for g in fb.fns.values() if g.file == m["file"] and any(
            t.j.get("fsp") and (t.j["fsp"][0], t.j["fsp"][1]) == (l, c) and term_calls(t, r"fmt::rt::Argument::<'_>::new_display$") for t in g.calls())]
        if not owner:
            raise AnchorError("no Display argument found for the key of %r at %s:%d" % (tpl, m["file"], l))
        g = owner[0]
        t = [t for t in g.calls() if t.j.get("fsp") and (t.j["fsp"][0], t.j["fsp"][1]) == (l, c) and term_calls(t, r"fmt::rt::Argument::<'_>::new_display$")][0]
        a = op_place(t.args[0])
        is_noa = lambda d: not hasattr(d, "rv") and re.search(r"::name_or_alias$", d.callee or "")
        src = None
        if a is not None:
            l0 = fmt_arg_root(g, a.local)
            src = local_flows_from(g, l0, is_noa, 12)
            if src is None:
                pr = samesrc.producer(g, l0)
                if pr[0] == "param" and "SelectableNameOrAlias" in g.local_ty(pr[1]):
                    callers = [(h_, t_) for h_ in fb.fns.values() for t_ in h_.calls() if t_.callee == g.id]
                    if callers and all(op_place(t_.args[pr[1] - 1]) is not None and local_flows_from(
                            h_, op_place(t_.args[pr[1] - 1]).local, is_noa, 12) is not None for h_, t_ in callers):
                        src = callers[0][1]
        nkeys += 1
        cx.ob("R27.param-keys", "%s|template-L%s|key-is-name_or_alias" % (fn_name, tpl.strip()[:24].replace("\n", "")), src is not None,
              "the property declared by %r is not named by name_or_alias() of the selection: the reader provides the value "
              "under the alias (or name), so an aliased selection is typed under a key that does not exist at run time" % tpl,
              "%s:%d" % (m["file"], m["span"][0]))
    cx.floor("R27.param-keys property declaration templates", nkeys, 6)
    # ---- R27.fragment-variants: selections next to inline fragments appear in every variant ------------------
    part = None
    for g in fb.with_closures(r):
        for sw_ in discr_switches(g):
            if (sw_["adt"] or "").endswith("MergedServerSelection") and not (g is r and sw_["bb"] == sw["bb"]) and "InlineFragment" in sw_["arms"]:
                regs = sibling.arm_regions(g, sw_)
                if regs.get("InlineFragment") != regs.get("ScalarField"):
                    part = (g, sw_, regs)
    rest_locals = set()
    if part is not None:
        g, sw_, regs = part
        if g is r:
            for b in regs.get("ScalarField", ()):
                t = g.blocks[b].term
                if t.op == "call" and re.search(r"::(insert|push|extend|push_back)$", t.callee or "") and t.args:
                    a0 = op_place(t.args[0])
                    if a0 is not None:
                        for d in local_defs(g, a0.local):
                            if hasattr(d, "rv") and d.rv == "ref" and d.place is not None:
                                rest_locals.add(d.place.local)
    rec = [t for t in r.calls() if t.callee == r.id]
    frag_rec = []
    for t in rec:
        a = op_place(t.args[3])
        if a is None:
            continue
        # does the map argument involve the selection_map of an inline fragment?
        def frag_field(d):
            return hasattr(d, "rv") and d.place is not None and "selection_map" in d.place.fields() and \
                "MergedInlineFragmentSelection" in r.local_ty(d.place.local)
        roots = [a.local]
        for _ in range(6):
            more = [d.place.local for d in local_defs(r, roots[-1]) if hasattr(d, "rv") and d.rv in ("ref", "use", "copy_for_deref") and d.place is not None]
            if len(more) != 1 or more[0] in roots:
                break
            roots.append(more[0])
        hit = None
        for rt in roots:
            if frag_field_direct(r, rt) or local_flows_from(r, rt, frag_field, 10) is not None or any(
                    local_flows_from(r, op_place(x).local, frag_field, 10) is not None
                    for m_ in mutators_of(r, rt) for x in m_.args[1:] if op_place(x) is not None):
                hit = rt
        if hit is not None:
            frag_rec.append((t, roots))
    cx.floor("R27.fragment-variants recursive calls printing an inline fragment variant", len(frag_rec), 1)
    for i, (t, roots) in enumerate(frag_rec):
        ok = bool(rest_locals) and any(
            rt in rest_locals or local_flows_from(r, rt, lambda d: hasattr(d, "rv") is False and any(
                pl is not None and any(dd.place is not None and dd.place.local in rest_locals for dd in local_defs(r, pl.local) if hasattr(dd, "rv"))
                for pl in d.arg_places()), 8) is not None for rt in roots)
        cx.ob("R27.fragment-variants", "%s|variant#%d-includes-sibling-selections" % (r.name, i), ok,
              "the raw response type of an inline-fragment variant is printed from the fragment's own selections only: "
              "fields selected on the abstract type next to the fragments (which the operation requests and the "
              "normalization AST stores) are missing from every variant", r.loc(t.line))

    # ---- R27.nullable-consulted: every printer of a type annotation looks at `nullable` of a union -------------
    nullable_consulted(cx, fb)


def nullable_consulted(cx, fb):
    """A union type annotation carries `nullable`; the provided value is null exactly when it is set.  In every
    TypeScript type printer that matches on TypeAnnotationDeclaration, each path through the Union arm to a return
    must read `nullable` of that union (or hand the whole union to a callee): a path that never looks at it prints
    the same text for `[T]` and `[T]!`, so one of them is described wrongly.  Necessary condition only."""
    n = 0
    for g in sorted(fb.fns.values(), key=lambda g: g.id):
        if not g.id.startswith("artifact_content::"):
            continue
        for sw in discr_switches(g):
            if not (sw["adt"] or "").endswith("TypeAnnotationDeclaration") or "Union" not in sw["arms"]:
                continue
            if sw["arms"].get("Union") == sw["arms"].get("Scalar"):
                continue  # wildcard arm: the function does not distinguish unions here
            # does this function print? (it or its callees push to a String / format)
            if not any(re.search(r"push_str$|::push$|fmt::format$|write_str$|write_fmt$", t.callee or "") for h in fb.with_closures(g) for t in h.calls()):
                continue
            n += 1
            is_union = lambda l: "UnionTypeAnnotationDeclaration" in g.local_ty(l)
            ev = set()
            for blk in g.blocks:
                hit = False
                for s in blk.stmts:
                    pls = [s.place] if s.place is not None else []
                    pls += [op_place(o) for o in (s.ops or []) if op_place(o) is not None]
                    for pl in pls:
                        if "nullable" in pl.fields() and is_union(pl.local):
                            hit = True
                t = blk.term
                if t.op == "switch":
                    pl = op_place(t.j["discr"])
                    if pl is not None and "nullable" in pl.fields() and is_union(pl.local):
                        hit = True
                if t.op == "call":
                    for a in t.arg_places():
                        if a is not None and not a.fields() and is_union(a.local):
                            hit = True  # the whole union is handed to a callee
                if hit:
                    ev.add(blk.i)
            rets = [b.i for b in g.blocks if b.term.op == "return"]
            p = path_without(g, sw["arms"]["Union"], rets, ev)
            cx.ob("R27.nullable-consulted", "%s|union-arm-reads-nullable" % g.id, p is None,
                  "a path through the Union arm of this type printer returns without looking at `nullable` of the "
                  "union (%s): a nullable and a non-null annotation of that shape get the same TypeScript type, while "
                  "the reader provides null for one of them" % (fmt_path(g, p) if p else ""), g.loc())
    cx.floor("R27.nullable-consulted type printers matching on TypeAnnotationDeclaration", n, 2)
