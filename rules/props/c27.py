"""C27 — Generated TypeScript types describe the data actually provided."""
import re
from rulelib import *
from factbase import AnchorError, op_place, op_const
import sibling, samesrc
from props.printer_shared import *

TITLE = "Generated TypeScript types describe the data actually provided"
TECHNIQUE = "sibling cross-check of the raw-response-type printer against the query-text printer per variant (MIR) + dataflow of property keys and optionality"
EXPLANATION = (
    "Claimed for key agreement only. generate_raw_response_type_inner is a third printer over MergedServerSelection: "
    "per variant it must agree with the query-text printer on whether the selection is emitted, it must key each "
    "property by the selection's normalization alias or, without arguments, its name (the same expression the query "
    "printer uses for the response key), recurse into the nested map for linked fields, and print the optional marker "
    "`?` exactly under is_nullable() of the selectable's own target type. The parameter-type printer keys each "
    "property by name_or_alias() of the selection, as the reader AST does. List / nullable structure of the types is "
    "not decided.")
ASSUMPTIONS = []


def run(cx):
    fb = cx.mir(*PRINTER_CRATES)
    q, qsw = mss_switch(fb, r"graphql_network_protocol::query_text::write_selections_for_query_text$")
    qa = sibling.attributes(fb, q, qsw, r"write_selections_for_query_text$")
    r = fb.one(r"artifact_content::raw_response_type::generate_raw_response_type_inner$")
    sws = [s for s in discr_switches(r) if (s["adt"] or "").endswith("MergedServerSelection")]
    cx.floor("R27.raw-keys matches over MergedServerSelection in the raw response printer", len(sws), 2)
    # the printing match is the one whose ScalarField arm emits
    best = None
    for sw in sws:
        at = sibling.attributes(fb, r, sw, r"generate_raw_response_type_inner$")
        if at.get("ScalarField", {}).get("emits"):
            best = (sw, at)
    if best is None:
        raise AnchorError("raw response printer: no printing match found")
    sw, ra = best
    for v in ("ScalarField", "LinkedField", "ClientObjectSelectable"):
        a, b = qa.get(v), ra.get(v)
        if a is None or b is None:
            raise AnchorError("variant %s missing" % v)
        cx.ob("R27.raw-keys", "variant-%s|emitted-agrees" % v, a["emits"] == b["emits"],
              "the raw response type %s a property for %s selections while the operation %s them" % (
                  "has" if b["emits"] else "has no", v, "requests" if a["emits"] else "does not request"), r.loc())
    for v in ("ScalarField", "LinkedField"):
        b = ra[v]
        uses_alias = any(re.search(r"::normalization_alias$", c) for c in b["calls"])
        cx.ob("R27.raw-keys", "variant-%s|keyed-by-normalization-alias" % v, uses_alias and "name" in b["fields"],
              "the property for a %s is not keyed by normalization_alias() / name: with arguments the server response "
              "key differs from the property name in the type" % v, r.loc())
        opt = any(re.search(r"::is_nullable$", c) for c in b["calls"])
        cx.ob("R27.raw-keys", "variant-%s|optional-iff-nullable" % v, opt,
              "the optional marker of a %s property is not derived from is_nullable() of its target type" % v, r.loc())
    cx.ob("R27.raw-keys", "variant-LinkedField|recurses", ra["LinkedField"]["recurses"] and "selection_map" in ra["LinkedField"]["fields"],
          "the raw response type of a linked field does not describe its nested selections", r.loc())
    # the "?" literal is chosen on the true branch of is_nullable
    n = 0
    for t in r.calls():
        if re.search(r"::is_nullable$", t.callee or ""):
            n += 1
            try:
                tt, ft = call_bool_branch(r, t)
            except AnchorError:
                continue
            def lit_in(b0):
                out = []
                for b in [b0]:
                    for s in r.blocks[b].stmts:
                        for o in s.ops:
                            c = op_const(o)
                            if c and "str" in c:
                                out.append(c["str"])
                return out
            cx.ob("R27.raw-keys", "%s|question-mark-on-nullable#%d" % (r.id, n), "?" in lit_in(tt) and "?" not in lit_in(ft),
                  "`?` is printed for non-nullable (or omitted for nullable) response fields", r.loc(t.line))
    cx.floor("R27.raw-keys nullability tests", n, 2)
    # ---- R27.param-keys ------------------------------------------------------------------------
    pt = [f for f in fb.fns.values() if f.file.endswith("generate_updatable_and_parameter_type.rs") and
          re.search(r"write_param_type_from_(selection|client_field|scalar|linked)", f.name or "")]
    if not pt:
        pt = [f for f in fb.fns.values() if f.file.endswith("generate_updatable_and_parameter_type.rs") and "write_param_type" in f.name]
    cx.floor("R27.param-keys parameter type writers", len(pt), 1)
    for f in pt:
        calls = {c for g in fb.with_closures(f) for t in g.calls() for c in [t.callee or ""]}
        uses = any(re.search(r"::name_or_alias$", c) for c in calls)
        if any(re.search(r"fmt::format$", c) for c in calls):
            cx.ob("R27.param-keys", f.id + "|keyed-by-name_or_alias", uses or not any(re.search(r"Selection", l["ty"]) for l in f.locals[1:f.argc + 1]),
                  "the parameter type's property name is not name_or_alias() of the selection (what the reader AST "
                  "uses as alias)", f.loc())
