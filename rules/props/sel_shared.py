"""Rules shared by C16 and C08 about traversals of selection sets."""
import re
from rulelib import *
from factbase import AnchorError


def every_selection_dispatched(cx, fb, rule, floor=3):
    """In every function of isograph_schema that loops over the selections of a selection set and dispatches on the
    kind of selection, each iteration reaches the dispatch: no path from 'next() returned Some' back to the loop
    head avoids every SelectionType switch. A `continue` placed before the dispatch (e.g. 'this name was seen
    already') leaves a selection - and its nested selection set - unvalidated / unmerged; later passes then meet
    data they assume validated and panic."""
    fns = []
    for f in fb.fns.values():
        if f.crate != "isograph_schema" or "::tests::" in f.id:
            continue
        nx = [t for t in f.calls() if re.search(r"Iterator>?::next$", t.declared or t.callee or "") and re.search(
            r"slice::Iter<'_, [\w:]*WithGenericLocation<[\w:]*Selection", (t.j.get("atys") or [""])[0])]
        sw = [s for s in discr_switches(f) if (s["adt"] or "").endswith("SelectionType")]
        if nx and sw:
            fns.append((f, nx, sw))
    cx.floor(rule + " functions looping over selections with a SelectionType dispatch", len(fns), floor)
    for f, nx, sws in fns:
        for k, t in enumerate(nx):
            sw = switch_on_call_result(f, t)
            if sw is None or "Some" not in sw["arms"]:
                raise AnchorError("%s: cannot find the Some branch of the selection loop" % f.id)
            some = sw["arms"]["Some"]
            # only switches inside this loop count
            in_loop = {b for b in reachable_from(f, some) if t.bb in f.reachable(b)}
            disp = [s["bb"] for s in sws if s["bb"] in in_loop]
            if not disp:
                continue
            p = path_without(f, some, [t.bb], disp)
            name = f.name or f.id.split("::")[-2]
            cx.ob(rule, "%s|loop#%d-every-selection-dispatched" % (name, k), p is None,
                  "an iteration of the selection loop can return to the loop head without dispatching on the selection "
                  "(path %s): that selection and everything nested in it is skipped by this pass" % fmt_path(f, p),
                  f.loc(t.line))
