"""Rules over pico that more than one property relies on."""
import re
from rulelib import *
from factbase import AnchorError, op_place, op_const


def field_flow(fn, local, field, depth=10):
    """does the value of `local` derive from a read of a place containing `.field`?"""
    return local_flows_from(fn, local, lambda d: hasattr(d, "rv") and any(field in p.fields() for p in d.reads()),
                            depth) is not None


def gc_index_fidelity(cx, fb, rule):
    """GC moves, for every kept id, the node found through revision.node_index and the dependency list found
    through revision.dependency_index, and records for the id the slots they were pushed to."""
    c = fb.one(r"InternalStorage<Db>>::run_garbage_collection$")
    gm = [t for t in c.calls() if term_calls(t, r"boxcar::Vec::<T>::get_mut$|boxcar::Vec::<T>::get$")]
    by_container = {}
    for t in gm:
        recv = op_place(t.args[0])
        cont = None
        for fld in ("derived_nodes", "derived_node_dependencies", "params"):
            if recv is not None and field_flow(c, recv.local, fld, 4):
                cont = fld
        if cont:
            by_container.setdefault(cont, []).append(t)
    want = {"derived_nodes": "node_index", "derived_node_dependencies": "dependency_index"}
    for cont, idxf in want.items():
        ts = by_container.get(cont, [])
        if not ts:
            raise AnchorError("GC: no lookup into %s found" % cont)
        for t in ts:
            a = op_place(t.args[1])
            ok = a is not None and field_flow(c, a.local, idxf, 8)
            other = [v for k, v in want.items() if v != idxf][0]
            wrong = a is not None and field_flow(c, a.local, other, 8) and not ok
            cx.ob(rule, "%s|%s-looked-up-by-%s" % (c.id, cont, idxf), ok and not wrong,
                  "GC fetches an entry of %s through an index other than revision.%s: after a backdated "
                  "re-execution the two indices differ and another function's value/dependencies are moved under "
                  "this id" % (cont, idxf), c.loc(t.line))
    revs = aggregates(c, r"^pico::derived_node::DerivedNodeRevision$")
    pushes = [t for t in c.calls() if term_calls(t, r"boxcar::Vec::<T>::push$")]
    for r in revs:
        names = r.j["fields"]
        for fld, elem_ty in (("node_index", "DerivedNode<"), ("dependency_index", "Vec<")):
            o = op_place(r.ops[names.index(fld)])
            src = None
            if o is not None:
                src = local_flows_from(c, o.local, lambda d: not hasattr(d, "rv") and d in pushes, depth=6)
            ok = src is not None and elem_ty in (src.j.get("atys") or ["", ""])[1]
            cx.ob(rule, "%s|new-revision-%s-from-own-push" % (c.id, fld), bool(ok),
                  "the %s recorded for a kept id is not the slot its own %s was pushed to" % (
                      fld, "node" if fld == "node_index" else "dependency list"), c.loc(r.line),
                  detail=(src.j.get("atys") if src else None))


def node_stability(cx, fb, rule):
    """When a re-executed function produces an equal value the stored DerivedNode is left in place
    (intern_ref raw pointers point into it; C02's backdating relies on the same branch)."""
    f = fb.one(r"pico::execute_memoized_function::update_derived_node$")
    ne = [t for t in f.calls() if re.search(r"PartialEq(<.*>)?>?::ne$", t.declared or "")
          and "DynEq" in " ".join(t.j.get("atys", []))]
    if len(ne) != 1:
        raise AnchorError("update_derived_node: expected exactly one `prev != new` comparison on dyn DynEq")
    true_t, false_t = call_bool_branch(f, ne[0])
    changed = reachable_from(f, true_t)
    same = reachable_from(f, false_t)
    only_changed = changed - same
    st = stores_to_field(f, "node_index")
    outside = [s for s in st if s.bb not in only_changed]
    ins = [t for t in f.calls() if term_calls(t, r"insert_derived_node$") and t.bb not in only_changed]
    cx.ob(rule, f.id + "|equal-value-keeps-node", not outside and not ins,
          "a re-execution that produced an equal value replaces the stored node: the superseded allocation is "
          "what intern_ref raw pointers (and backdated dependents) still refer to, and the next GC frees it",
          f.loc((outside or ins or [ne[0]])[0].line))
