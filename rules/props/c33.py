"""C33 — Signed generated files verify, and any edit breaks the signature."""
import re
from rulelib import *
from factbase import AnchorError, op_place, op_const

TITLE = "Signed generated files verify, and any edit breaks the signature"
TECHNIQUE = "sibling cross-check (sign vs verify substitution multiplicity), dataflow, constant-table and CFG must-pass-through (every accepting path recomputes the digest) rules over MIR"
EXPLANATION = (
    "sign and is_valid_signature are two implementations of one substitution and must agree: sign replaces every "
    "occurrence of the token (str::replace), so the verifier must substitute every signature back (Regex::replace_all, "
    "not the first-match Regex::replace); the value hashed when signing is the whole input and when verifying the "
    "whole input with only the signature substituted; the slice offsets that cut the digest out of the match equal the "
    "lengths of the literal prefix and suffix of the signature regex (read from the regex literal); every path of the "
    "verifier that does not answer false passes through the digest computation (no cached or shortcut verdict). Collision "
    "resistance of MD5 is not decided.")
ASSUMPTIONS = ["regex::Regex::replace substitutes the first match only and replace_all every match (documented behaviour)"]


def literal_affixes(pattern):
    """(prefix, suffix) of literal text around the first capture group of a simple regex."""
    p = pattern
    if "(?:" in p:
        i = p.index("(?:")
        # drop the non-capturing group's parentheses
        depth = 0
        j = None
        for k in range(i, len(p)):
            if p[k] == "(":
                depth += 1
            elif p[k] == ")":
                depth -= 1
                if depth == 0:
                    j = k
                    break
        p = p[:i] + p[i + 3:j] + p[j + 1:]
    i = p.index("(")
    depth = 0
    for k in range(i, len(p)):
        if p[k] == "(":
            depth += 1
        elif p[k] == ")":
            depth -= 1
            if depth == 0:
                return p[:i], p[k + 1:]
    raise AnchorError("cannot split regex " + pattern)


def run(cx):
    fb = cx.mir("signedsource")
    fns = [f for f in fb.fns.values() if "::tests::" not in f.id]
    # the private helpers are found by role, so that renaming them (two of them share a signature) changes nothing:
    # `hash` = the function feeding a digest, `sign` = the function that calls it and substitutes the token
    ss = [f for f in fb.fns.values() if f.crate == "signedsource" and not f.root and "::tests::" not in f.id and "tests.rs" not in f.file]
    hcand = [f for f in ss if any(re.search(r"Update>?::update$|Digest>?::update$", (t.declared or "") + (t.callee or "")) for t in f.calls())]
    if len(hcand) != 1:
        raise AnchorError("signedsource: expected one function feeding a digest, found %s" % [f.id for f in hcand])
    H = hcand[0]
    HRX = "^" + re.escape(H.id) + "$"
    scand = [f for f in ss if f.j.get("vis") != "pub" and any(t.callee == H.id for t in f.calls()) and any(
        re.search(r"<impl str>::replace$", t.callee or "") for t in f.calls())]
    if len(scand) != 1:
        raise AnchorError("signedsource: expected one private function that hashes and substitutes the token, found %s" % [f.id for f in scand])
    sign = scand[0]
    SRX = "^" + re.escape(sign.id) + "$"
    ver = fb.one(r"^signedsource::is_valid_signature$")
    # ---- R33.multiplicity ---------------------------------------------------
    s_rep = [t for t in sign.calls() if re.search(r"<impl str>::(replace|replacen|replace_range)$", t.callee or "")]
    v_rep = [t for t in ver.calls() if re.search(r"regex::(regex::string::)?Regex::(replace|replace_all|replacen)$", t.callee or "")]
    if len(s_rep) != 1 or len(v_rep) != 1:
        raise AnchorError("sign / is_valid_signature: expected exactly one substitution each (%d/%d)" % (len(s_rep), len(v_rep)))
    s_all = s_rep[0].callee.endswith("::replace")
    v_all = v_rep[0].callee.endswith("::replace_all")
    cx.ob("R33.multiplicity", "sign-vs-verify", s_all == v_all,
          "sign substitutes %s occurrence(s) of the token but the verifier substitutes %s back: a file containing the "
          "token twice signs but never verifies" % ("every" if s_all else "one", "every" if v_all else "only the first"),
          ver.loc(v_rep[0].line))
    # ---- R33.hash-covers-input ------------------------------------------------
    hs = [t for t in sign.calls() if t.callee == H.id]
    ok = len(hs) == 1 and (op_place(hs[0].args[0]) is not None) and (
        op_place(hs[0].args[0]).local == 1 or local_flows_from(sign, op_place(hs[0].args[0]).local, lambda d: hasattr(d, "rv") and any(
            p.local == 1 for p in d.reads()), 4) is not None)
    cx.ob("R33.hash-covers-input", sign.id + "|hashes-whole-input", ok,
          "the signature must be the hash of the whole file text", sign.loc())
    # the replacement text contains the hash
    hv = [t for t in ver.calls() if t.callee == H.id]
    ok = len(hv) == 1 and local_flows_from(ver, op_place(hv[0].args[0]).local, lambda d: d is v_rep[0], 8) is not None
    a0 = op_place(v_rep[0].args[1])
    ok = ok and a0 is not None and (a0.local == 1 or local_flows_from(ver, a0.local, lambda d: hasattr(d, "rv") and any(
        p.local == 1 for p in d.reads()), 4) is not None)
    cx.ob("R33.hash-covers-input", ver.id + "|hashes-whole-unsigned-input", ok,
          "verification must hash the whole text with only the signature substituted back", ver.loc())
    eqs = [t for t in ver.calls() if re.search(r"PartialEq(<.*>)?>?::(eq|ne)$", t.declared or "")]
    cx.ob("R33.hash-covers-input", ver.id + "|compares-digest", len(eqs) >= 1,
          "the recomputed digest must be compared with the embedded one", ver.loc())
    # ---- R33.verdict-from-digest: no path to a result other than `false` bypasses the digest ------------------------
    # is_valid_signature must be a function of the text alone: every path from entry to return either recomputes the
    # digest (calls hash) or answers `false`.  A path that answers from anything else (a cache, the length, the
    # embedded signature alone) accepts some edited file.
    hb = set(blocks_calling(ver, HRX))
    falseb = set()
    for b in ver.blocks:
        for s_ in b.stmts:
            if s_.dst is not None and s_.dst.local == 0 and not s_.dst.proj and s_.rv == "use" and s_.ops:
                c = op_const(s_.ops[0])
                if c and c.get("ty") == "bool" and c.get("v") is False:
                    falseb.add(b.i)
    rets = [b.i for b in ver.blocks if b.term.op == "return"]
    pth = path_without(ver, 0, rets, hb | falseb)
    cx.ob("R33.verdict-from-digest", ver.id + "|every-accepting-path-recomputes-digest", bool(hb) and pth is None,
          "a path through is_valid_signature returns without recomputing the digest and without answering false (%s): "
          "the verdict on that path does not depend on the text, so an edit of an accepted file is not detected" % (
              fmt_path(ver, pth) if pth else "no call to the hash function"), ver.loc())
    # every function hashing uses md5 over the data argument
    h = H
    upd = [t for t in h.calls() if re.search(r"Update>?::update$|Digest>?::update$", t.declared or t.callee or "")]
    import samesrc
    pr = samesrc.producer(h, op_place(upd[0].args[1]).local) if len(upd) == 1 and op_place(upd[0].args[1]) is not None else None
    cx.ob("R33.hash-covers-input", h.id + "|digest-of-argument", pr is not None and pr[0] == "param" and pr[1] == 1,
          "hash() must feed its argument itself to the digest (found %s): a digest of a normalised / shortened copy does "
          "not change when the characters that the normalisation removes are edited" % (pr,), h.loc())
    # ---- R33.offsets ----------------------------------------------------------------
    pats = []
    for f in fns:
        for s in f.stmts():
            for o in s.ops:
                c = op_const(o)
                if c and "str" in c and "SignedSource<<(" in c["str"]:
                    pats.append(c["str"])
        for t in f.calls():
            for o in t.args:
                c = op_const(o)
                if c and "str" in c and "SignedSource<<(" in c["str"]:
                    pats.append(c["str"])
    if not pats:
        raise AnchorError("signature regex literal not found")
    pre, suf = literal_affixes(pats[0])
    consts = {"Add": [], "Sub": []}
    for s in ver.stmts():
        if s.rv == "binop":
            k = "Add" if s.j["binop"].startswith("Add") else "Sub" if s.j["binop"].startswith("Sub") else None
            if k:
                for o in s.ops:
                    c = op_const(o)
                    if c and "v" in c:
                        consts[k].append(int(c["v"]))
    cx.ob("R33.offsets", ver.id + "|digest-slice-offsets",
          consts["Add"] == [len(pre)] and consts["Sub"] == [len(suf)],
          "the offsets used to cut the digest out of the match (+%s / -%s) must equal the literal prefix/suffix "
          "lengths of the signature regex (%d / %d)" % (consts["Add"], consts["Sub"], len(pre), len(suf)), ver.loc(),
          detail="regex %r prefix %r suffix %r" % (pats[0], pre, suf))
    # SIGNING_TOKEN = "@generated " + NEWTOKEN; sign replaces NEWTOKEN with "SignedSource<<{hash}>>": the signed form
    # must be what the regex matches
    fmt = [c for f in fns for s in f.stmts() for o in s.ops for c in [op_const(o)] if c and "str" in c and c["str"].startswith("SignedSource<<")]
    cx.count(len(fmt))
    # try_sign_file signs exactly when the token is present
    ts = fb.one(r"^signedsource::try_sign_file$")
    cont = [t for t in ts.calls() if re.search(r"<impl str>::contains$", t.callee or "")]
    sg = blocks_calling(ts, SRX)
    ok = False
    if len(cont) == 1 and sg:
        tt, ft = call_bool_branch(ts, cont[0])
        ok = all(ts.dominates(tt, b) for b in sg)
    elif len(cont) == 1:
        # `data.contains(TOKEN).then(|| sign(data))`: the closure runs exactly when the test is true
        thens = [t for t in ts.calls() if re.search(r"bool>?::then$|<impl bool>::then$", t.callee or "") and op_place(t.args[0]) is not None
                 and local_flows_from(ts, op_place(t.args[0]).local, lambda d: d is cont[0], 4) is not None]
        cl_sign = [c for c in fb.closures_of(ts) if blocks_calling(c, SRX)]
        ok = len(thens) == 1 and len(cl_sign) == 1
    cx.ob("R33.multiplicity", ts.id + "|signs-iff-token-present", ok,
          "try_sign_file must sign exactly when the signing token is present", ts.loc())
