"""C16 — Invalid selections are rejected and valid ones accepted."""
import re
from rulelib import *
from factbase import AnchorError, op_place, op_const

TITLE = "Invalid selections are rejected and valid ones accepted"
TECHNIQUE = "call-graph reachability of validators + forward dataflow of their verdicts into the error set + reviewed drop table (MIR)"
EXPLANATION = (
    "Decides that the validators are wired and their verdicts are not lost: every function of the validate* modules "
    "that produces diagnostics is reachable from validate_entire_schema; in validate_entire_schema every "
    "diagnostic-carrying result flows into the error set (extend / maybe_extend / propagated); a non-empty error set "
    "is returned as Err; inside the validate* modules the idioms that discard a diagnostic-carrying Result "
    "(.ok(), .is_ok(), `if let Ok`, a match whose Err arm ignores the payload) occur only at reviewed sites. It does "
    "not decide that each validation rule is complete or that valid programs are accepted.")
ASSUMPTIONS = ["diagnostics collected in the error set make validate_entire_schema return Err (checked by R16.gate)"]

DROP = r"result::Result::<T, E>::(ok|is_ok|is_err|unwrap_or|unwrap_or_default|unwrap_or_else|is_ok_and|is_err_and|unwrap_or_else)$"

# reviewed: places where a diagnostic-carrying Result is deliberately discarded (function suffix, how)
REVIEWED_DROPS = {
    ("validate_argument_types::value_satisfies_type::{closure#3}", "is_ok"):
        "union/one-of match: asks whether *some* member type accepts the value; the failure is reported by the caller",
    ("validate_argument_types::get_non_nullable_missing_and_provided_fields::{closure#1}", "ok"):
        "selectable lookup error is reported by validate_selectables, which owns that error",
    ("validate_use_of_arguments::validate_use_of_arguments::{closure#0}", "ok"):
        "client selectable declaration errors are reported through non_fatal_diagnostics / process_iso_literals",
    ("validate_use_of_arguments::validate_use_of_arguments_for_client_type::{closure#0}", "match-ignores-err"):
        "undefined field / entity is reported by validate_selection_sets, which owns that error (commented in source)",
    ("validate::validate_entire_schema::{closure#0}::{closure#0}", "match-ignores-err"):
        "`if let Ok(outcome) = deprecated_parse_type_system_documents`: a fatal schema parse error is reported by "
        "the functions that need the schema (validate_selectables etc.)",
}


def in_validate_modules(f):
    return f.crate == "isograph_schema" and re.search(r"/validate[a-z_]*\.rs$", f.file) and "::tests::" not in f.id


def drop_sites(fb):
    out = []
    for f in fb.fns.values():
        if not in_validate_modules(f):
            continue
        for c in f.calls():
            if c.callee and re.search(DROP, c.callee):
                aty = " ".join(c.j.get("atys", []))
                if "Diagnostic" in aty:
                    out.append((f, c.callee.rsplit("::", 1)[1], c.line))
        for sw in discr_switches(f):
            ty = f.local_ty(sw["place"].local)
            if "Result<" in ty and "Diagnostic" in ty and "Err" in sw["arms"] and "Ok" in sw["arms"]:
                reg = reachable_from(f, sw["arms"]["Err"]) - reachable_from(f, sw["arms"]["Ok"])
                reads = False
                for b in reachable_from(f, sw["arms"]["Err"]):
                    blk = f.blocks[b]
                    for st in blk.stmts:
                        if any("@Err" in p.proj for p in st.reads()):
                            reads = True
                    for p in blk.term.arg_places() if blk.term.op == "call" else []:
                        if p is not None and "@Err" in p.proj:
                            reads = True
                if not reads:
                    out.append((f, "match-ignores-err", sw["term"].line))
    return out


def run(cx):
    fb = cx.mir("isograph_schema", "graphql_network_protocol", "artifact_content", "isograph_compiler")
    root = fb.one(r"^isograph_schema::validate::validate_entire_schema$")
    reach = fb.reachable_fns([root])
    # ---- R16.no-dead-validator --------------------------------------------------------
    validators = [f for f in fb.fns.values() if in_validate_modules(f) and f.j["defkind"] == "Fn"
                  and re.match(r"(validate|assert_no|value_satisfies|.*_satisfies_type)", f.name)
                  and "Diagnostic" in (f.ret or "")]
    cx.floor("R16.no-dead-validator validator functions", len(validators), 15)
    for f in validators:
        cx.ob("R16.no-dead-validator", f.id + "|reachable", f.id in reach,
              "a validator is not reachable from validate_entire_schema: the invalid programs it rejects now compile",
              f.loc())
    # every function in the validate modules that constructs a Diagnostic is reachable
    makers = [f for f in fb.fns.values() if in_validate_modules(f) and any(
        term_calls(t, r"common_lang_types::Diagnostic::new$") for t in f.calls())]
    dead = [f for f in makers if (f.root or f.id) not in reach and f.id not in reach]
    cx.ob("R16.no-dead-validator", "diagnostic-producers-reachable", not dead,
          "functions that build diagnostics but are unreachable from validate_entire_schema: %s" % [f.id for f in dead][:4],
          "crates/isograph_schema/src")

    # ---- R16.collected ----------------------------------------------------------------------
    body_fns = [g for g in fb.fns.values() if g.id.startswith(root.id + "::{closure")]
    n = 0
    for g in body_fns:
        for t in g.calls():
            if t.dst is None or t.dst.proj:
                continue
            ty = g.local_ty(t.dst.local)
            callee = t.callee or ""
            if "Diagnostic" not in ty or callee not in fb.fns or fb.fns[callee].crate != "isograph_schema":
                continue
            if fb.fns[callee].name in ("maybe_extend",):
                continue
            n += 1
            r = forward_flow(g, t.dst.local, lambda c: term_calls(c, r"Extend>?::extend$|validate::maybe_extend$|FromResidual"))
            k = sum(1 for x in g.calls() if x.bb < t.bb and x.callee == callee)
            cx.ob("R16.collected", "%s|%s#%d" % (root.id, fb.fns[callee].name, k), r is not None,
                  "the verdict of %s does not reach the error set of validate_entire_schema: what it rejects is "
                  "silently accepted" % fb.fns[callee].name, g.loc(t.line))
    cx.floor("R16.collected diagnostic-carrying calls in validate_entire_schema", n, 9)

    # ---- R16.gate ------------------------------------------------------------------------------
    for g in body_fns:
        ie = [t for t in g.calls() if term_calls(t, r"BTreeSet::<T, A>::is_empty$|Vec::<T, A>::is_empty$|HashSet.*::is_empty$")]
        if not ie:
            continue
        tt, ft = call_bool_branch(g, ie[-1])
        nonempty = reachable_from(g, ft) - reachable_from(g, tt)
        empty = reachable_from(g, tt) - reachable_from(g, ft)
        err_made = any(blk_calls(g.blocks[b], r"Postfix::wrap_err$") or any(
            s.rv == "aggregate" and s.j.get("variant") == "Err" for s in g.blocks[b].stmts) for b in nonempty)
        ok_made = any(any(s.rv == "aggregate" and s.j.get("variant") == "Ok" for s in g.blocks[b].stmts) or
                      blk_calls(g.blocks[b], r"Postfix::wrap_ok$") for b in nonempty)
        cx.ob("R16.gate", root.id + "|errors-mean-Err", err_made and not ok_made,
              "validate_entire_schema returns Ok although diagnostics were collected", g.loc(ie[-1].line))
        # the error set is filled before it is tested: every extend dominates the test
        ext = [t.bb for t in g.calls() if term_calls(t, r"Extend>?::extend$|validate::maybe_extend$")]
        late = [b for b in ext if not g.dominates(b, ie[-1].bb) and ie[-1].bb not in g.reachable(b)]
        cx.count(len(ext))

    # ---- R16.scoped-scratch: a recursive validator does not wipe state it shares with its callers -------------
    rec = []
    for f in fb.fns.values():
        if not in_validate_modules(f) or f.j["defkind"] != "Fn":
            continue
        if f.id in fb.reachable_fns(list(fb.callees(f).values())):
            rec.append(f)
    cx.floor("R16.scoped-scratch recursive validators", len(rec), 1)
    for f in rec:
        bad = None
        for g in fb.with_closures(f):
            for t in g.calls():
                if term_calls(t, r"(HashSet|HashMap|BTreeSet|BTreeMap|Vec|VecDeque)::<.*>::(clear|truncate|drain|retain)$") and g is f:
                    a = op_place(t.args[0])
                    root = a.local if a is not None else None
                    for _ in range(6):
                        if root is None or 1 <= root <= f.argc:
                            break
                        ds = [d for d in local_defs(f, root) if hasattr(d, "rv") and d.rv in ("use", "ref", "copy_for_deref")]
                        root = ds[0].reads()[0].local if len(ds) == 1 and ds[0].reads() else None
                    if root is not None and 1 <= root <= f.argc:
                        bad = t
        cx.ob("R16.scoped-scratch", f.id + "|does-not-wipe-shared-collection", bad is None,
              "a recursive validator clears a collection it received from its caller: entering a nested selection "
              "set erases what the enclosing set had recorded (e.g. the names seen so far), so a duplicate after the "
              "nested field is no longer reported", f.loc(bad.line if bad else None))

    # ---- R16.drops --------------------------------------------------------------------------------
    sites = drop_sites(fb)
    cx.floor("R16.drops discard idioms in validate modules", len(sites), 4)
    for f, how, line in sites:
        key = (f.id.split("::", 1)[1], how)
        cx.ob("R16.drops", "%s|%s" % key, key in REVIEWED_DROPS,
              "a diagnostic-carrying Result is discarded (%s) at a site that is not in the reviewed table: a verdict "
              "that used to be propagated may now be lost" % how, f.loc(line), detail=REVIEWED_DROPS.get(key))
    # ---- R16.every-selection-validated (shared with C08) ---------------------------------------------------
    from props.sel_shared import every_selection_dispatched
    every_selection_dispatched(cx, cx.mir("isograph_schema"), "R16.every-selection-validated")

