"""C01 — Memoized results always equal a from-scratch evaluation.

Decides the mechanism clauses (dependency registration on every source read,
epoch advance on every observable source change, verification over every node
kind, tracked-field counters); not the equality of values.
"""
import re
from rulelib import *
from factbase import AnchorError, op_place, op_const

TITLE = "Memoized results always equal a from-scratch evaluation"
TECHNIQUE = "MIR path rules (must-pass-through, ordering, exhaustive match) over pico + compile-fail witnesses"
EXPLANATION = (
    "Static rules over the type-checked MIR of crates/pico (all paths of each anchored function): every read of a "
    "source node registers a dependency on every return path (including the path that reports absence); every path "
    "that stores a new SourceNode or removes one advances the epoch; dependency verification matches every NodeKind "
    "without wildcard and treats a removed source as changed; tracked-field views touch their counter singleton; "
    "memoized bodies in the workspace reach tracked database fields only through reviewed sites. These are necessary "
    "conditions of the property; value equality over histories is not decided.")
ASSUMPTIONS = [
    "MIR at -Zmir-opt-level=0 preserves the source control flow of the analysed functions",
    "calls through dyn StorageDyn are linked to the single workspace impl (Storage<Db>)",
]

REGISTER = r"register_dependency_in_parent_memoized_fn$|DependencyStack::push_if_not_empty$"

# reviewed: callers of get_source_node that are not reads on behalf of user code
READ_EXEMPT = {
    "pico::execute_memoized_function::source_node_changed_since":
        "verification step: compares time_updated against the recorded epoch; not a read by a memoized body",
}


def non_test(f):
    return "/tests/" not in f.file and "/src/" in f.file


def rule_dep_on_read(cx, fb):
    pico = [f for f in fb.fns.values() if f.crate == "pico" and non_test(f)]
    readers = [f for f in pico if any(term_calls(t, r"InternalStorage::<Db>::get_source_node$") for t in f.calls())]
    cx.floor("R01.dep-on-read readers of get_source_node", len(readers), 2)
    # verification (everything any_dependency_changed runs) consults the source table to *check* recorded
    # dependencies; it is not a read on behalf of a memoized body
    adc = fb.one(r"pico::execute_memoized_function::any_dependency_changed$")
    verification = set(fb.reachable_fns([adc], stop=lambda g: g.name == "execute_memoized_function"))
    for f in readers:
        if f.id in READ_EXEMPT or (f.id in verification and f.name != "execute_memoized_function"):
            cx.ob("R01.dep-on-read", f.id + "|exempt", True, "reviewed exemption: verification step (reachable only "
                  "from any_dependency_changed); it checks recorded dependencies and performs no user read",
                  f.loc(), nontrivial=False)
            continue
        ev = blocks_calling(f, REGISTER)
        p = path_without(f, 0, f.return_blocks(), ev)
        cx.ob("R01.dep-on-read", f.id + "|return-without-register", p is None,
              "a path returns to the caller after consulting the source table without registering a dependency "
              "(a memoized caller that observed this read is not invalidated when the source appears/changes)",
              f.loc(), detail="path " + fmt_path(f, p) if p else None)
    # the epoch stamped on a registered observation is a real one (a node's time_updated, the current epoch
    # or a fold of dependency times) - never the initial epoch `Epoch::new()`: an observation dated "at the
    # beginning of time" lets a changed reader's time_updated move backwards past its dependents' records
    n_reg = 0
    for f in pico:
        if f.id in verification and f.name != "execute_memoized_function":
            continue
        for t in f.calls():
            if not term_calls(t, r"Storage::<Db>::register_dependency_in_parent_memoized_fn$|StorageDyn::register_dependency_in_parent_memoized_fn$"):
                continue
            if f.name == "register_dependency_in_parent_memoized_fn":
                continue
            n_reg += 1
            a = op_place(t.args[2])
            fresh = a is None or local_flows_from(
                f, a.local, lambda d: not hasattr(d, "rv") and term_calls(d, r"epoch::Epoch::new$"), depth=4) is not None
            cx.ob("R01.observation-epoch", "%s|L-arg-not-initial-epoch|%d" % (f.id, sum(1 for x in f.calls() if x.bb < t.bb and term_calls(x, r"register_dependency_in_parent_memoized_fn$"))),
                  not fresh, "a dependency is registered with the initial epoch as its time_updated: a reader whose "
                  "value changes because of this observation gets a time_updated older than what its dependents "
                  "recorded, so they keep stale results", f.loc(t.line))
    cx.floor("R01.observation-epoch registration sites", n_reg, 6)
    # other dependency-producing reads
    targets = [r"pico::memo_ref::MemoRef::<T>::lookup_tracked$", r"pico::database::intern_value$",
               r"pico::database::intern_ref$", r"pico::execute_memoized_function::execute_memoized_function$"]
    for pat in targets:
        f = fb.one(pat)
        ev = blocks_calling(f, REGISTER)
        p = path_without(f, 0, f.return_blocks(), ev)
        cx.ob("R01.dep-on-read", f.id + "|return-without-register", p is None,
              "a normal return that does not register the derived node in the parent memoized function", f.loc(),
              detail="path " + fmt_path(f, p) if p else None)
    # the registration helper itself reaches the dependency stack, and the stack pushes
    f = fb.one(r"pico::database::Storage::<Db>::register_dependency_in_parent_memoized_fn$")
    p = path_without(f, 0, f.return_blocks(), blocks_calling(f, r"DependencyStack::push_if_not_empty$"))
    cx.ob("R01.dep-on-read", f.id + "|reaches-stack", p is None, "registration helper must push onto the stack",
          f.loc())
    f = fb.method("register_dependency_in_parent_memoized_fn", impl_for=r"Storage<Db>", trait=r"StorageDyn$")
    p = path_without(f, 0, f.return_blocks(), blocks_calling(f, REGISTER))
    cx.ob("R01.dep-on-read", f.id + "|forwards", p is None, "dyn registration must forward", f.loc())
    f = fb.one(r"pico::dependency::DependencyStack::push_if_not_empty$")
    sw = [s for s in discr_switches(f) if "Some" in s["arms"]]
    ok = False
    for s in sw:
        tgt = s["arms"]["Some"]
        p = path_without(f, tgt, f.return_blocks(), blocks_calling(f, r"TrackedDependencies::push$"))
        ok = ok or p is None
    cx.ob("R01.dep-on-read", f.id + "|pushes-when-nonempty", ok,
          "with a parent on the stack the dependency must be pushed", f.loc())
    # TrackedDependencies::push keeps the dependency: either Vec::push or the in-place update of the same node
    f = fb.one(r"pico::dependency::TrackedDependencies::push$")
    ev = blocks_calling(f, r"vec::Vec::<T, A>::push$") + \
        [s.bb for s in stores_to_field(f, "time_verified_or_updated")]
    p = path_without(f, 0, f.return_blocks(), ev)
    cx.ob("R01.dep-on-read", f.id + "|records", p is None,
          "every path records the dependency (push or update of the identical last entry)", f.loc(),
          detail=fmt_path(f, p) if p else None)


def rule_epoch_on_change(cx, fb):
    pico = [f for f in fb.fns.values() if f.crate == "pico" and non_test(f)]
    writers = [f for f in pico if aggregates(f, r"^pico::source::SourceNode$")]
    cx.floor("R01.epoch-on-change SourceNode constructors", len(writers), 1)
    for f in writers:
        incr = blocks_calling(f, r"pico::epoch::Epoch::increment$")
        for i, a in enumerate(aggregates(f, r"^pico::source::SourceNode$")):
            # which arm is this? name it by the enclosing match variant if any
            arm = "site%d" % i
            for sw in discr_switches(f):
                for name, tgt in sw["arms"].items():
                    if f.dominates(tgt, a.bb) and name in ("Occupied", "Vacant"):
                        arm = name.lower()
            before = path_without(f, 0, [a.bb], incr) is not None or a.bb == 0
            after = path_without(f, a.bb, f.return_blocks(), incr) is not None
            bad = (a.bb not in incr) and before and after
            cx.ob("R01.epoch-on-change", "%s|store-without-increment|%s" % (f.id, arm), not bad,
                  "a new SourceNode is stored on a path that never advances the epoch: dependents verified in the "
                  "current epoch keep serving what they computed before the write",
                  f.loc(a.line))
            # the stamp written is the advanced epoch
            tu = a.ops[0]
            pl = op_place(tu)
            good = False
            if pl is not None:
                d = local_flows_from(f, pl.local, lambda s: (not hasattr(s, "rv")) and term_calls(s, r"Epoch::increment$"))
                good = d is not None
            if not bad:
                cx.ob("R01.epoch-stamp", "%s|time_updated-from-increment|%s" % (f.id, arm), good,
                      "time_updated of a stored SourceNode must be the epoch returned by Epoch::increment",
                      f.loc(a.line))
    # removal
    rem = [f for f in pico if any(term_calls(t, r"dashmap::DashMap::<K, V, S>::remove$") for t in f.calls())
           and re.search(r"source", f.id)]
    # alternative shape: the slot is emptied with Option::take and the key kept
    rem_take = [f for f in pico if f not in rem and re.search(r"remove_source", f.id) and any(
        term_calls(t, r"option::Option::<T>::take$") and "SourceNode" in " ".join(t.j.get("atys", [])) for t in f.calls())]
    cx.floor("R01.epoch-on-change source removers", len(rem) + len(rem_take), 1)
    for f in rem_take:
        incr = blocks_calling(f, r"pico::epoch::Epoch::increment$")
        takes = [t for t in f.calls() if term_calls(t, r"option::Option::<T>::take$")]
        ok = bool(incr) and any(b in reachable_from(f, t.bb) or any(f.dominates(b, t.bb) for b in incr) for t in takes for b in incr)
        cx.ob("R01.epoch-on-change", f.id + "|remove-without-increment", ok,
              "a source that existed is removed without advancing the epoch", f.loc())
    for f in rem:
        incr = blocks_calling(f, r"pico::epoch::Epoch::increment$")
        for t in f.calls():
            if not term_calls(t, r"dashmap::DashMap::<K, V, S>::remove$"):
                continue
            sw = switch_on_call_result(f, t)
            if sw is None or "Some" not in sw["arms"]:
                raise AnchorError("remove_source: result of DashMap::remove is not matched")
            p = path_without(f, sw["arms"]["Some"], f.return_blocks(), incr)
            cx.ob("R01.epoch-on-change", f.id + "|remove-without-increment", p is None,
                  "a source that existed is removed without advancing the epoch", f.loc(t.line),
                  detail=fmt_path(f, p) if p else None)
    # public mutators reach the internal ones on every path
    for api, inner in ((r"pico::database::Storage::<Db>::set$", r"InternalStorage::<Db>::set_source$"),
                       (r"pico::database::Storage::<Db>::remove$", r"InternalStorage::<Db>::remove_source$"),
                       (r"pico::database::Storage::<Db>::remove_singleton$", r"InternalStorage::<Db>::remove_source$")):
        f = fb.one(api)
        p = path_without(f, 0, f.return_blocks(), blocks_calling(f, inner))
        cx.ob("R01.epoch-on-change", f.id + "|reaches-internal", p is None,
              "public mutator returns without performing the internal mutation", f.loc())
    # Epoch::increment really advances
    f = fb.one(r"pico::epoch::Epoch::increment$")
    adds = [s for s in f.stmts() if s.rv == "binop" and s.j["binop"].startswith("Add")] + \
           [t for t in f.calls() if re.search(r"(checked|wrapping|saturating)_add|Add>::add|AddAssign", t.callee or "")]
    cx.ob("R01.epoch-on-change", f.id + "|advances", bool(adds), "Epoch::increment must add to the counter", f.loc())


def rule_verify_all_kinds(cx, fb):
    pico = [f for f in fb.fns.values() if f.crate == "pico" and non_test(f)]
    verifiers = []
    for f in pico:
        if not any(term_calls(t, r"source_node_changed_since$") for t in f.calls()):
            continue
        for sw in discr_switches(f):
            if sw["adt"] == "pico::dependency::NodeKind":
                verifiers.append((f, sw))
    cx.floor("R01.verify-all-kinds NodeKind matches in verification", len(verifiers), 1)
    for f, sw in verifiers:
        cx.ob("R01.verify-all-kinds", f.id + "|no-wildcard", not sw["wildcard"],
              "the verification match over NodeKind has a wildcard arm covering %s" % sw["wildcard"], f.loc())
        for name, tgt in sorted(sw["arms"].items()):
            p = path_without(f, tgt, f.return_blocks(), blocks_calling(f, r"_changed_since$|InternalStorage::<Db>::get_source_node$"))
            cx.ob("R01.verify-all-kinds", "%s|arm-%s-checks" % (f.id, name), p is None,
                  "a dependency of kind %s is accepted without consulting its change time" % name, f.loc())
    f = fb.one(r"pico::execute_memoized_function::source_node_changed_since$")
    t = [t for t in f.calls() if term_calls(t, r"get_source_node$")]
    if len(t) != 1:
        raise AnchorError("source_node_changed_since: expected one get_source_node call")
    sw = switch_on_call_result(f, t[0])
    if sw is None or "None" not in sw["arms"]:
        raise AnchorError("source_node_changed_since: no match on the lookup result")
    region = reachable_from(f, sw["arms"]["None"])
    some_region = reachable_from(f, sw["arms"]["Some"]) if "Some" in sw["arms"] else set()
    only = region - some_region
    vals = []
    for b in only:
        for s in f.blocks[b].stmts:
            if s.dst is not None and s.dst.local == 0 and not s.dst.proj:
                c = op_const(s.ops[0]) if s.ops else None
                vals.append(c.get("v") if c else None)
    cx.ob("R01.verify-all-kinds", f.id + "|removed-source-is-changed", vals == [True],
          "a dependency on a source that has been removed must count as changed", f.loc(), detail=str(vals))
    # the changed test compares time_updated with the recorded epoch using `>`
    gt = [t for t in f.calls() if re.search(r"PartialOrd(>)?::gt$", t.declared or "")]
    cx.ob("R01.verify-all-kinds", f.id + "|compares-time-updated", len(gt) == 1,
          "source change test must be `time_updated > since`", f.loc())
    g = fb.one(r"pico::execute_memoized_function::derived_node_changed_since$")
    gt = [t for t in g.calls() if re.search(r"PartialOrd(>)?::gt$", t.declared or "") and any(
        "time_updated" in p.fields() for d in local_defs(g, op_place(t.args[0]).local) if hasattr(d, "rv")
        for p in d.reads())]
    rec = [t for t in g.calls() if term_calls(t, r"execute_memoized_function::execute_memoized_function$")]
    cx.ob("R01.verify-all-kinds", g.id + "|compares-or-reverifies", len(gt) >= 1 and len(rec) >= 1,
          "derived dependency check must compare time_updated and otherwise re-verify the dependency", g.loc())
    # every "unchanged" verdict and every delegation to re-verification is preceded by the comparison of the
    # dependency's time_updated with the epoch the parent recorded: DidRecalculate only says whether the
    # dependency changed *during this verification*, not since the parent last looked
    false_blocks = [b.i for b in g.blocks for st in b.stmts if st.dst is not None and st.dst.local == 0
                    and not st.dst.proj and st.ops and (op_const(st.ops[0]) or {}).get("v") is False]
    targets = [t.bb for t in rec] + false_blocks
    # a `false` that merely reports the outcome of re-verification is downstream of `rec`; keep those reachable
    # without passing rec out of the target set
    after_rec = set()
    for t in rec:
        after_rec |= reachable_from(g, t.j["t"]) if t.j.get("t") is not None else set()
    targets = [b for b in targets if b not in after_rec]
    pth = path_without(g, 0, targets, [t.bb for t in gt])
    cx.ob("R01.verify-all-kinds", g.id + "|time_updated-compared-before-unchanged-verdict", pth is None,
          "a derived dependency can be declared unchanged (or handed to re-verification, whose answer only covers "
          "this verification) without comparing its time_updated against the epoch recorded by the parent: a "
          "dependency that was brought up to date earlier, by someone else, is missed", g.loc(),
          detail=fmt_path(g, pth) if pth else None)
    for t in gt:
        try:
            tt, ft = call_bool_branch(g, t)
        except AnchorError:
            continue  # result returned directly
        vals = [(op_const(st.ops[0]) or {}).get("v") for st in g.blocks[tt].stmts
                if st.dst is not None and st.dst.local == 0 and st.ops]
        cx.ob("R01.verify-all-kinds", g.id + "|newer-time_updated-means-changed", vals == [True],
              "a dependency whose time_updated is newer than recorded must be reported as changed", g.loc(t.line))


def rule_counter(cx, fb):
    f = fb.one(r"pico::view::MutView::<'a, Db, T, C>::tracked$")
    p = path_without(f, 0, f.return_blocks(), blocks_calling(f, r"Database::set$|Storage::<Db>::set$"))
    cx.ob("R01.counter", f.id + "|sets-counter", p is None,
          "mutable tracked access must write the counter singleton on every path", f.loc(),
          detail=fmt_path(f, p) if p else None)
    # the value written is the incremented one
    inc = [c for g in fb.with_closures(f) for c in g.calls() if term_calls(c, r"Counter::increment$")]
    cx.ob("R01.counter", f.id + "|increments", len(inc) >= 1, "the counter written must be incremented", f.loc())
    f = fb.one(r"pico::view::View::<'a, Db, T, C>::tracked$")
    p = path_without(f, 0, f.return_blocks(), blocks_calling(f, r"Database::get_singleton$|get_singleton$"))
    cx.ob("R01.counter", f.id + "|reads-counter", p is None,
          "tracked access must read the counter singleton (registering the dependency) on every path", f.loc())
    f = fb.one(r"pico::view::View::<'a, Db, T, C>::untracked$")
    cx.count()


def rule_derive_forwards(cx):
    """#[derive(Db)] expansions (probe crate): the Database methods forward to Storage on every path, and a
    #[tracked] field is projected only inside the generated projector closures."""
    pb = cx.probe()
    fw = {"get": r"Storage::<Db>::get$", "get_singleton": r"Storage::<Db>::get_singleton$",
          "set": r"Storage::<Db>::set$", "remove": r"Storage::<Db>::remove$",
          "remove_singleton": r"Storage::<Db>::remove_singleton$",
          "run_garbage_collection": r"Storage::<Db>::run_garbage_collection$",
          "intern_value": r"pico::intern_value$|database::intern_value$",
          "intern_ref": r"pico::intern_ref$|database::intern_ref$"}
    n = 0
    for name, target in sorted(fw.items()):
        for f in pb.methods(name, impl_for=r"TrackedDb$", trait=r"pico::Database$"):
            n += 1
            p = path_without(f, 0, f.return_blocks(), blocks_calling(f, target))
            cx.ob("R01.derive-forwards", "derive(Db)|Database::%s" % name, p is None,
                  "the generated Database::%s does not forward to the storage implementation on every path" % name,
                  "crates/pico_macros/src/db_macro.rs")
    cx.floor("R01.derive-forwards generated Database methods", n, 8)
    # tracked field `map` of the probe database: projected only by generated projectors
    sites = []
    for f in pb.fns.values():
        for s in f.stmts():
            for pl in [s.dst] + s.reads():
                if pl is not None and "map" in pl.fields() and "TrackedDb" in f.local_ty(pl.local):
                    sites.append(f)
    sites = {f.id: f for f in sites}
    cx.floor("R01.counter projector sites in probe", len(sites), 2)
    for fid, f in sorted(sites.items()):
        cx.ob("R01.counter", "derive(Db)|tracked-field-projected-in|" + fid.split("::")[-2],
              "_PROJECTOR" in fid and f.from_macro("Db"),
              "a #[tracked] field is read outside the generated projector (bypasses the counter singleton)", fid)
    # accessors hand out views, never the field
    for nm, ty in (("get_map", r"pico::View<"), ("get_map_mut", r"pico::MutView<")):
        f = pb.one(r"probe_tracked::TrackedDb::%s$" % nm)
        cx.ob("R01.counter", "derive(Db)|%s-returns-view" % nm, re.search(ty, f.ret or "") is not None,
              "generated accessor must return a View/MutView (counter-tracked access)", f.id)


def rule_no_untracked_read(cx):
    """Workspace: tracked fields of IsographDatabase are projected only by generated projectors or reviewed
    sites; View::untracked is only called where the caller holds &mut Db (cannot be inside a memoized body)."""
    fb = cx.mir("isograph_schema", "isograph_compiler", "isograph_lsp", "graphql_network_protocol",
                "artifact_content")
    tracked = set()
    for f in fb.fns.values():
        if "_PROJECTOR" in f.id and f.from_macro("Db"):
            for s in f.stmts():
                for pl in s.reads():
                    if "IsographDatabase" in f.local_ty(pl.local) and pl.fields():
                        tracked.add(pl.fields()[0])
    cx.floor("R01.no-untracked-read tracked fields of IsographDatabase", len(tracked), 3)
    REVIEWED = {
        "isograph_schema::isograph_database::IsographDatabase::<TCompilationProfile>::get_schema_source":
            "reads standard_sources.schema_source_id directly; the id is derived from the schema path (stable key) "
            "and the function immediately performs the tracked source read db.get(id)",
    }
    n = 0
    for f in fb.fns.values():
        if "_PROJECTOR" in f.id and f.from_macro("Db"):
            continue
        if f.is_derive():
            continue  # derive(Debug)/derive(Default) on the database struct
        hit = None
        for s in f.stmts():
            for pl in [s.dst] + s.reads():
                if pl is not None and pl.fields() and pl.fields()[0] in tracked and \
                        re.search(r"IsographDatabase<", f.local_ty(pl.local)):
                    hit = s
        if hit is not None:
            n += 1
            fld = [pl for pl in [hit.dst] + hit.reads() if pl is not None and pl.fields() and pl.fields()[0] in tracked][0].fields()[0]
            # accepted idiom: the same body already performed the tracked read of this very field on every
            # path to the direct read (get_<field>() ... .tracked() dominates it)
            acc = blocks_calling(f, r"::get_%s$" % fld)
            trk = blocks_calling(f, r"View::<.*>::tracked$")
            dominated = any(f.dominates(a, hit.bb) for a in acc) and any(
                f.dominates(t, hit.bb) and any(f.dominates(a, t) for a in acc) for t in trk)
            if dominated:
                cx.ob("R01.no-untracked-read", f.id + "|direct-field-read", True,
                      "direct read of tracked field %s is dominated by a tracked read of the same field" % fld,
                      f.loc(hit.line))
                continue
            cx.ob("R01.no-untracked-read", f.id + "|direct-field-read", f.id in REVIEWED,
                  "a #[tracked] database field is read directly (no counter dependency is registered; a memoized "
                  "caller is not invalidated when the field changes)", f.loc(hit.line),
                  detail=REVIEWED.get(f.id))
    cx.count(n)
    for t in fb.calls_to(r"View::<.*>::untracked$"):
        f = t.fn
        root = fb.fns.get(f.root) if f.root else f
        has_mut = any(re.match(r"&mut .*IsographDatabase<", l["ty"]) for l in (root or f).locals[1:(root or f).argc + 1])
        cx.ob("R01.no-untracked-read", f.id + "|untracked-call", has_mut,
              "View::untracked is called from a function that does not hold &mut Db, so it may run inside a "
              "memoized body where the read would go unrecorded", f.loc(t.line))


def run(cx):
    fb = cx.mir("pico")
    rule_dep_on_read(cx, fb)
    rule_epoch_on_change(cx, fb)
    rule_verify_all_kinds(cx, fb)
    rule_counter(cx, fb)
    rule_derive_forwards(cx)
    rule_no_untracked_read(cx)
    cx.witness_obligations("R01.borrow", [
        ("W1SourceRefAcrossSet", "a source &T must not be usable after the source is written"),
        ("W2MemoRefAcrossSet", "a memoized &T must not be usable after a source write"),
        ("W7SourceRefAcrossRemove", "a source &T must not be usable after remove"),
        ("W10SingletonRefAcrossRemove", "a singleton reference must not be usable after remove_singleton"),
        ("W8SetNeedsMut", "writing a source must need exclusive access to the database"),
    ])
