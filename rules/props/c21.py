"""C21 — Language-server answers match a fresh server on the same contents."""
import re
from rulelib import *
from factbase import AnchorError, op_place, op_const
from props import c01

TITLE = "Language-server answers match a fresh server on the same contents"
TECHNIQUE = "MIR must-pass-through / who-may-call rules on the text-document handlers and the open-file reader + the C01 invalidation obligations"
EXPLANATION = (
    "An open buffer must win over the file on disk, and memoized answers must be invalidated when a buffer is opened, "
    "changed or closed. Decided: each of the three text-document notification handlers reaches insert_open_file / "
    "remove_open_file on every normal return path (no early return that leaves the buffer unregistered); the "
    "iso-literal source of a file is read (Database::get::<IsoLiteralsSource>) only by functions that first consult "
    "the open-file map; get_open_file reads that map through the tracked view on every path (so every memoized "
    "reader depends on the open-file counter, also when the map was empty at the time); insert_open_file / "
    "remove_open_file write the map through the tracked mutable view; and the pico obligations behind the first "
    "didOpen after a validation (a read of an absent source registers a dependency, the first insert of a source "
    "advances the epoch) hold. Equality with a fresh server for all histories is not decided.")
ASSUMPTIONS = ["the client uses full-text synchronisation (the server advertises TextDocumentSyncKind::FULL)"]


def run(cx):
    fb = cx.mir("isograph_lsp", "isograph_schema", "pico")
    # ---- R21.notifications-mutate --------------------------------------------------------------
    hs = {"on_did_open_text_document": r"insert_open_file$", "on_did_change_text_document": r"insert_open_file$",
          "on_did_close_text_document": r"remove_open_file$"}
    for name, target in hs.items():
        f = fb.one(r"isograph_lsp::text_document::%s$" % name)
        ev = blocks_calling(f, target)
        p = path_without(f, 0, f.return_blocks(), ev)
        cx.ob("R21.notifications-mutate", f.id + "|registers-buffer-on-every-path", bool(ev) and p is None,
              "the handler can return without updating the open-file map: the server then answers for the text on "
              "disk (or a stale buffer) although the editor holds different text", f.loc(),
              detail=fmt_path(f, p) if p else None)
    # the handlers are wired to their notifications
    srv = [f for f in fb.fns.values() if f.crate == "isograph_lsp" and f.file.endswith("server.rs")]
    wired = {n: any(any((op_const(a) or {}).get("fn", "").endswith(n) for a in t.args) for f in srv for t in f.calls()) or
             any((op_const(o) or {}).get("fn", "").endswith(n) for f in srv for st in f.stmts() for o in st.ops) or
             any(term_calls(t, n + "$") for f in srv for t in f.calls()) for n in hs}
    for n, ok in wired.items():
        cx.ob("R21.notifications-mutate", "server|dispatches-" + n, ok,
              "the notification handler %s is not registered with the dispatcher" % n, "crates/isograph_lsp/src/server.rs")

    # ---- R21.buffer-owners: only the editor's notifications change the set of open buffers -------------------------
    wb = cx.mir("isograph_lsp", "isograph_schema", "isograph_compiler", "isograph_cli", "artifact_content")
    handler_cone = owner_cone(wb, [wb.one(r"isograph_lsp::text_document::%s$" % n).id for n in hs], crates={"isograph_lsp"})
    muts = [t for t in wb.calls_to(r"IsographDatabase::<TCompilationProfile>::(insert_open_file|remove_open_file)$")
            if "::tests::" not in t.fn.id and "/tests/" not in t.fn.file]
    cx.floor("R21.buffer-owners call sites of insert_open_file / remove_open_file", len(muts), 3)
    for t in muts:
        owner = t.fn.root or t.fn.id
        cx.ob("R21.buffer-owners", "%s|%s" % (owner, (t.callee or "").split("::")[-1]), owner in handler_cone,
              "the open-file map is changed outside the didOpen / didChange / didClose handlers: an editor buffer is "
              "dropped or replaced without the editor having said so (e.g. by a file-watcher event), and the server "
              "answers for other text than a fresh server given the same open buffers", t.fn.loc(t.line))
    # ---- R21.open-file-via-one-reader -----------------------------------------------------------------
    readers = []
    for f in fb.fns.values():
        if f.crate not in ("isograph_schema", "isograph_lsp") or "::tests::" in f.id:
            continue
        for t in f.calls():
            if re.search(r"Database>?::get$|IsographDatabase.*::get$|Storage::<Db>::get$", t.callee or t.declared or "") and any(
                    "IsoLiteralsSource" in x for x in t.targs + t.j.get("atys", [])):
                readers.append((f, t))
    cx.floor("R21.open-file-via-one-reader reads of IsoLiteralsSource", len(readers), 2)
    for f, t in readers:
        root = fb.fns.get(f.root) if f.root else f
        bodies = fb.with_closures(root) if root else [f]
        consults = any(term_calls(c, r"IsographDatabase::<TCompilationProfile>::get_open_file$") for g in bodies for c in g.calls())
        cx.ob("R21.open-file-via-one-reader", (f.root or f.id) + "|consults-open-files", consults,
              "the on-disk iso-literal source of a file is read by a function that does not consult the open-file map: "
              "an open buffer is ignored", f.loc(t.line))
    # ---- R21.open-file-tracked -----------------------------------------------------------------------------
    g = fb.one(r"IsographDatabase::<TCompilationProfile>::get_open_file$")
    tr = blocks_calling(g, r"View::<'a, Db, T, C>::tracked$|view::View::<.*>::tracked$")
    un = blocks_calling(g, r"View::<.*>::untracked$")
    p = path_without(g, 0, g.return_blocks(), tr)
    cx.ob("R21.open-file-tracked", g.id + "|tracked-on-every-path", bool(tr) and p is None and not un,
          "get_open_file can answer without reading the open-file map through the tracked view: a reader computed "
          "while no buffer was open registers no dependency on the open-file counter and is never invalidated by the "
          "first didOpen / didChange", g.loc(), detail=fmt_path(g, p) if p else None)
    for nm in ("insert_open_file", "remove_open_file"):
        h = fb.one(r"IsographDatabase::<TCompilationProfile>::%s$" % nm)
        mt = blocks_calling(h, r"MutView::<'a, Db, T, C>::tracked$|view::MutView::<.*>::tracked$")
        p = path_without(h, 0, h.return_blocks(), mt)
        cx.ob("R21.open-file-tracked", h.id + "|mutates-through-tracked-view", bool(mt) and p is None,
              "%s changes the open-file map without bumping its counter singleton" % nm, h.loc())
    # the buffer's text is stored as a source (set) before the map points at it
    h = fb.one(r"IsographDatabase::<TCompilationProfile>::insert_open_file$")
    st = blocks_calling(h, r"Database>?::set$|Storage::<Db>::set$")
    p = path_without(h, 0, h.return_blocks(), st)
    cx.ob("R21.open-file-tracked", h.id + "|stores-buffer-text", bool(st) and p is None,
          "insert_open_file does not store the buffer text as a source on every path", h.loc())
    # ---- the pico obligations behind "first didOpen after a validation" ---------------------------------------
    pf = cx.mir("pico")
    n0 = len(cx.obs)
    c01.rule_dep_on_read(cx, pf)
    c01.rule_epoch_on_change(cx, pf)
    for o in cx.obs[n0:]:
        o.rule = o.rule.replace("R01.", "R21/R01.")
