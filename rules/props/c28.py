"""C28 — The SWC transform resolves each literal to the artifact the compiler wrote."""
import re, os
from rulelib import *
from factbase import AnchorError, op_place, op_const
from props.c24 import skip_class, class_chars, skip_alphabet
from props.parser_shared import token_legend_pairs

TITLE = "The SWC transform resolves each literal to the artifact the compiler wrote"
TECHNIQUE = "regular-language comparison of the plugin's header regex (syn literal) with the parser's header language (lexer classes + token pairing from MIR); constant-table agreement for keywords and path layout"
EXPLANATION = (
    "The SWC plugin re-recognises the header of an iso literal with a regular expression and builds the import path "
    "from its captures. Decided: the regex literal is parsed into its segments (leading gap, keyword alternation, "
    "gap, type class, '.', name class) and compared with the parser's header language: every gap the parser accepts "
    "between the four header tokens (runs of the lexer's skip class; none required around '.') must be accepted at "
    "the same place by the regex, and the name capture must stop where the parser's identifier stops, i.e. the name "
    "class must exclude every character that can directly follow the name (@ { \" ( and whitespace). The keyword "
    "alternation, the plugin's keyword classification and the parser's keyword discriminator are the same set; the "
    "plugin's path layout <artifact dir>/__isograph/<Type>/<name>/<kind>.ts uses the compiler's folder constant and "
    "entrypoint file name. Only literals the compiler accepts are in scope (the regex being more permissive is not "
    "a violation).")
ASSUMPTIONS = ["Rust regex semantics: leftmost-first match, \\s is Unicode White_Space"]

UNICODE_WS = set(" \t\n\r\f\v\u0085      　") | {chr(c) for c in range(0x2000, 0x200b)}


def rx_atoms(pat):
    """Split a regex into top-level atoms: (text, quantifier, captured)."""
    out, i = [], 0
    while i < len(pat):
        c = pat[i]
        cap = False
        if c == "(":
            d, j = 0, i
            while True:
                if pat[j] == "\\":
                    j += 2
                    continue
                if pat[j] == "[":
                    j = pat.index("]", j + 2) + 1
                    continue
                d += pat[j] == "("
                d -= pat[j] == ")"
                j += 1
                if d == 0:
                    break
            atom, cap = pat[i + 1:j - 1], not pat[i + 1:].startswith("?:")
            i = j
        elif c == "[":
            j = pat.index("]", i + 2) + 1
            atom, i = pat[i:j], j
        elif c == "\\":
            if pat[i + 1] == "u" and pat[i + 2] == "{":
                j = pat.index("}", i) + 1
            else:
                j = i + 2
            atom, i = pat[i:j], j
        else:
            atom, i = c, i + 1
        q = ""
        if i < len(pat) and pat[i] in "*+?":
            q, i = pat[i], i + 1
        out.append((atom, q, cap))
    return out


def class_set(cls):
    """(negated, literal chars, includes \\s) for `[...]`, `\\s`."""
    if cls == "\\s":
        return False, set(), True
    if not (cls.startswith("[") and cls.endswith("]")):
        raise AnchorError("not a class: " + cls)
    body = cls[1:-1]
    neg = body.startswith("^")
    body = body[1:] if neg else body
    ws = "\\s" in body
    body = body.replace("\\s", "")
    lits, i = set(), 0
    esc = {"t": "\t", "r": "\r", "n": "\n", "f": "\f", "v": "\v"}
    while i < len(body):
        c = body[i]
        if c == "\\":
            n = body[i + 1]
            if n == "u":
                j = body.index("}", i)
                lits.add(chr(int(body[i + 3:j], 16)))
                i = j + 1
                continue
            if n == "x":
                lits.add(chr(int(body[i + 2:i + 4], 16)))
                i += 4
                continue
            lits.add(esc.get(n, n))
            i += 2
            continue
        if i + 2 < len(body) and body[i + 1] == "-":
            lits |= {chr(k) for k in range(ord(c), ord(body[i + 2]) + 1)}
            i += 3
            continue
        lits.add(c)
        i += 1
    return neg, lits, ws


def accepts(cls, ch):
    neg, lits, ws = class_set(cls)
    inside = ch in lits or (ws and ch in UNICODE_WS)
    return inside != neg


def segment(pat):
    """-> dict(lead, kw, g1, ty, g2, g3, name); gaps are class atoms or None, ty/name are lists of (class, quant)."""
    at = rx_atoms(pat)
    caps = [i for i, a in enumerate(at) if a[2]]
    if len(caps) != 3:
        raise AnchorError("expected three capture groups in %r" % pat)
    k, t, n = caps
    dots = [i for i in range(t + 1, n) if at[i][0] == "\\."]
    if len(dots) != 1 or n != len(at) - 1:
        raise AnchorError("cannot segment the plugin regex %r" % pat)

    def gap(lo, hi):
        g = at[lo:hi]
        if not g:
            return None
        if len(g) == 1 and g[0][1] in "*+" and g[0][1]:
            return g[0]
        raise AnchorError("unrecognised gap %r in %r" % (g, pat))
    return {"lead": gap(0, k), "kw": at[k][0], "g1": gap(k + 1, t), "ty": rx_atoms(at[t][0]), "g2": gap(t + 1, dots[0]),
            "g3": gap(dots[0] + 1, n), "name": rx_atoms(at[n][0])}


def ident_class(syn):
    for it in syn["items"]:
        if it["kind"] == "enum" and it["path"].endswith("IsographLangTokenKind"):
            for v in it["variants"]:
                if v["name"] == "Identifier":
                    for a in v["attrs"]:
                        if a["name"] == "regex":
                            return a["args"][0]
    raise AnchorError("lexer Identifier regex not found")


def token_text(syn, kind):
    for it in syn["items"]:
        if it["kind"] == "enum" and it["path"].endswith("IsographLangTokenKind"):
            for v in it["variants"]:
                if v["name"] == kind:
                    for a in v["attrs"]:
                        if a["name"] == "token":
                            return a["args"][0]
    raise AnchorError("lexer token %s not found" % kind)


def capture_stops_before(atoms, ident, ch):
    """Does a capture made of `atoms` necessarily stop before `ch` when it has consumed an identifier?"""
    last = atoms[-1]
    if last[1] in "*+":
        return not accepts(last[0], ch)
    return True


def str_consts(fns):
    out = set()
    for g in fns:
        for s in g.stmts():
            for o in s.ops:
                c = op_const(o)
                if c and "str" in c:
                    out.add(c["str"])
        for t in g.calls():
            for o in t.args:
                c = op_const(o)
                if c and "str" in c:
                    out.add(c["str"])
    return out


def capture_index(g, o, depth=0):
    """Chase an operand back to `captures[i]`."""
    p = op_place(o)
    if p is None or depth > 8:
        return None
    for d in local_defs(g, p.local):
        if hasattr(d, "callee"):
            if re.search(r"Index<usize>>::index$", d.callee or ""):
                c = op_const(d.args[1])
                return int(c["v"]) if c and "v" in c else None
            if d.args:
                return capture_index(g, d.args[0], depth + 1)
        else:
            src = d.place or (op_place(d.ops[0]) if d.ops else None)
            if src is not None:
                return capture_index(g, {"copy": [src.local, []]}, depth + 1)
    return None


def struct_fields(syn, name):
    for it in syn["items"]:
        if it["kind"] == "struct" and it["path"].endswith(name):
            return [f["name"] for f in it["fields"]]
    raise AnchorError("struct %s not found" % name)


def run(cx):
    syn = cx.syn()
    rx = [c for c in syn["calls"] if c["file"].endswith("swc_isograph_plugin/src/lib.rs") and c["method"].endswith("Regex::new") and c["args"]]
    if len(rx) != 1:
        raise AnchorError("plugin header regex not found")
    pat = rx[0]["args"][0]
    # tolerant manual segmentation
    seg = segment(pat)
    cx.extra["plugin_regex"] = pat
    skip = set(skip_alphabet(syn))
    ident = ident_class(syn)
    fb = cx.mir("isograph_lang_parser", "swc_isograph_plugin", "artifact_content", "isograph_config")
    kinds = {st: k for k, st in token_legend_pairs(fb)}
    for st, k in {"ST_SERVER_OBJECT_TYPE": "Identifier", "ST_DOT": "Period", "ST_CLIENT_SELECTABLE_NAME": "Identifier"}.items():
        if kinds.get(st) != k:
            raise AnchorError("parser pairing %s -> %s not found" % (st, k))
    where = "crates/swc_isograph_plugin/src/lib.rs:OPERATION_REGEX"
    # ---- R28.header-language: gaps ---------------------------------------------------------------
    for name, g in (("keyword-type", seg["g1"]), ("type-dot", seg["g2"]), ("dot-name", seg["g3"])):
        missing = sorted(c for c in skip if g is None or not accepts(g[0], c))
        cx.ob("R28.header-language", "gap-%s|parser-gap-accepted-by-regex" % name, not missing,
              "between %s the parser skips runs of %s, but the plugin's regex has %s there (not accepted: %s): the literal "
              "compiles, yet the transform finds no (or another) header and the import does not name the artifact "
              "the compiler wrote" % (name.replace("-", " and "), sorted(skip), repr(g[0] + g[1]) if g else "no gap", missing), where)
    # ---- the captures end where the parser's identifiers end ---------------------------------------------
    ep = fb.one(r"isograph_lang_parser::parse_iso_literal::parse_iso_entrypoint_declaration$")
    ep_calls = {t.callee for g in fb.with_closures(ep) for t in g.calls()}
    if not any(re.search(r"::parse_directives$", c or "") for c in ep_calls):
        raise AnchorError("parse_iso_entrypoint_declaration no longer parses directives after the name")
    followers = {token_text(syn, "At"): "At"}
    pfa = fb.one(r"swc_isograph_plugin::ValidIsographTemplateLiteral::path_for_artifact$")
    callers = {g.name for g in fb.fns.values() for t in g.calls() if t.callee == pfa.id}
    if callers != {"handle_valid_isograph_entrypoint_literal"}:
        # names of field / pointer literals now reach the path as well: their followers count too
        followers.update({token_text(syn, "OpenBrace"): "OpenBrace", token_text(syn, "OpenParen"): "OpenParen", "\"": "StringLiteral"})
    cx.extra["name_followers"] = followers
    for ch, kind in followers.items():
        cx.ob("R28.header-language", "name-capture|stops-before-%s" % kind, capture_stops_before(seg["name"], ident, ch),
              "the name capture does not stop at %r: for `entrypoint Type.name%s...` (accepted by the parser, the lexer "
              "splits the tokens) the captured name includes the following token and the import path is wrong" % (ch, ch), where)
    for ch in sorted(skip):
        cx.ob("R28.header-language", "name-capture|stops-at-skip-%04x" % ord(ch), capture_stops_before(seg["name"], ident, ch),
              "the name capture does not stop at skipped character %r" % ch, where, nontrivial=False)
    for ch in sorted(skip | {"."}):
        cx.ob("R28.header-language", "type-capture|stops-at-%04x" % ord(ch), capture_stops_before(seg["ty"], ident, ch),
              "the type capture does not stop at %r" % ch, where, nontrivial=False)
    # the captures accept every identifier
    probe = "_azAZ09"
    for label, atoms in (("type", seg["ty"]), ("name", seg["name"])):
        first_ok = all(accepts(atoms[0][0], c) for c in "_aZ")
        rest_ok = all(accepts(atoms[-1][0], c) for c in probe)
        cx.ob("R28.header-language", "%s-capture|accepts-identifiers" % label, first_ok and rest_ok,
              "the %s capture rejects characters of the lexer's identifier class %s" % (label, ident), where)
    # ---- R28.classification ------------------------------------------------------------------------------
    kw_regex = set(seg["kw"].split("|"))
    frm = fb.methods("from", impl_for=r"ArtifactType$", trait=r"From$")
    if len(frm) != 1:
        raise AnchorError("From<&str> for ArtifactType not found")
    kw_from = set()
    for g in [frm[0]]:
        for s in g.stmts():
            for o in s.ops:
                c = op_const(o)
                if c and "str" in c and re.fullmatch(r"[a-z]+", c["str"]):
                    kw_from.add(c["str"])
        for t in g.calls():
            for o in t.args:
                c = op_const(o)
                if c and "str" in c and re.fullmatch(r"[a-z]+", c["str"]):
                    kw_from.add(c["str"])
    pil = fb.one(r"isograph_lang_parser::parse_iso_literal::parse_iso_literal$")
    kw_parser = set()
    for g in fb.with_closures(pil):
        for s in g.stmts():
            for o in s.ops:
                c = op_const(o)
                if c and "str" in c and c["str"] in ("entrypoint", "field", "pointer"):
                    kw_parser.add(c["str"])
        for t in g.calls():
            for o in t.args:
                c = op_const(o)
                if c and "str" in c and c["str"] in ("entrypoint", "field", "pointer"):
                    kw_parser.add(c["str"])
    cx.ob("R28.classification", "keyword-sets-agree", kw_regex == kw_from == kw_parser and len(kw_parser) == 3,
          "the keyword sets differ: regex %s, plugin classification %s, parser %s" % (sorted(kw_regex), sorted(kw_from), sorted(kw_parser)),
          "crates/swc_isograph_plugin/src/lib.rs")
    # ---- capture -> field mapping ----------------------------------------------------------------------
    cl = [g for g in fb.fns.values() if g.crate == "swc_isograph_plugin" and "parse_iso_template_literal::{closure" in g.id]
    mapping = {}
    for g in cl:
        for a in aggregates(g, r"ValidIsographTemplateLiteral$"):
            for i, o in enumerate(a.ops):
                mapping[i] = capture_index(g, o)
    want = {"field_type": 2, "field_name": 3, "artifact_type": 1}
    names = struct_fields(syn, "ValidIsographTemplateLiteral")
    got = {names[i]: v for i, v in mapping.items() if i < len(names)}
    cx.ob("R28.classification", "capture-groups|type=2,name=3,keyword=1", got == want,
          "the regex captures are wired to the wrong fields: %s (expected %s)" % (got, want),
          "crates/swc_isograph_plugin/src/lib.rs:parse_iso_template_literal")
    # ---- R28.path-layout -------------------------------------------------------------------------------------
    layout = [m_ for m_ in syn["macros"] if m_["file"].endswith("swc_isograph_plugin/src/lib.rs") and m_.get("template") and m_["template"].endswith(".ts") and m_["template"].count("{}") == 4]
    folder = [c for c in syn["consts"] if c["name"] == "ISOGRAPH_FOLDER"]
    disp = fb.methods("fmt", impl_for=r"ArtifactType$", trait=r"Display$")
    disp_strs = str_consts(disp)
    init = fb.find(r"ENTRYPOINT_FILE_NAME as std::ops::Deref>::deref::__static_ref_initialize$")
    stems = {c[:-3] for c in str_consts(init) if c.endswith(".ts")}
    if len(stems) != 1:
        raise AnchorError("compiler's ENTRYPOINT_FILE_NAME initialiser not found")
    entry_stem = stems.pop()
    args = [re.sub(r"\s+", "", a["text"]) for a in (layout[0]["args"] if layout else [])]
    ok = len(layout) == 1 and layout[0]["template"] == "{}/{}/{}/{}.ts" and bool(folder) and entry_stem in disp_strs \
        and args[1:] == ["self.field_type", "self.field_name", "self.artifact_type"]
    # compiler side: <dir>.join(entity).join(selectable).join(file_name)
    cx.extra["layout_args"] = args
    cx.ob("R28.path-layout", "plugin-path-template", ok,
          "the plugin's import path layout %s / kind names %s do not match the compiler's <dir>/<Type>/<name>/%s.ts" % (
              [m_["template"] for m_ in layout], sorted(disp_strs), entry_stem), "crates/swc_isograph_plugin/src/lib.rs")
