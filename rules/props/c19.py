"""C19 — An interrupted artifact write is repaired by the next successful compile."""
import re
from rulelib import *
from factbase import AnchorError, op_place, op_const
from props.fs_shared import *

TITLE = "An interrupted artifact write is repaired by the next successful compile"
TECHNIQUE = "MIR ordering rule: commit of the in-memory file-system state versus the applier's error continuation"
EXPLANATION = (
    "In compile() (with get_file_system_operations' write through its &mut parameter taken into account) the "
    "in-memory FileSystemState that the next diff is computed against must not describe files that were never "
    "written: either the new state is stored only on the success continuation of apply_file_system_operations, or "
    "the error continuation resets it. With no state the planner is recreate_all, which opens with "
    "DeleteDirectory(root). Decides this ordering on all paths; it does not simulate crashes.")
ASSUMPTIONS = ["an apply that returns Err may have performed any prefix of the planned operations"]


def run(cx):
    fb = cx.mir("artifact_content", "isograph_compiler", "common_lang_types")
    c = fb.one(r"isograph_compiler::batch_compile::compile$")
    ap = [t for t in c.calls() if term_calls(t, r"write_artifacts::apply_file_system_operations$")]
    if len(ap) != 1:
        raise AnchorError("compile: expected one apply_file_system_operations call")
    ok_t, err_t = result_branch(c, ap[0])

    # where may compile() change state.file_system_state?
    writers = []   # (block, kind)
    for b in c.blocks:
        for s in b.stmts:
            if s.dst is not None and "file_system_state" in s.dst.fields():
                writers.append((b.i, "store"))
        t = b.term
        if t.op == "call":
            for ai, a in enumerate(t.arg_places()):
                if a is None:
                    continue
                d = local_flows_from(c, a.local, lambda d: hasattr(d, "rv") and d.rv == "ref" and d.j.get("mut")
                                     and d.place is not None and "file_system_state" in d.place.fields(), 4)
                if d is not None:
                    callee = fb.fns.get(t.callee)
                    writes_through = True
                    if callee is not None:
                        idx = ai + 1
                        writes_through = any(s.dst is not None and s.dst.local == idx and "*" in s.dst.proj
                                             for s in callee.stmts())
                    if writes_through:
                        writers.append((b.i, "callee " + (t.callee or "?").split("::")[-1]))
            if t.dst is not None and "file_system_state" in t.dst.fields():
                writers.append((b.i, "store"))
    cx.floor("R19.commit-after-apply writers of file_system_state in compile", len(writers), 1)
    before = [(b, k) for b, k in writers if ap[0].bb in c.reachable(b) and b != ap[0].bb and not c.dominates(ok_t, b)]
    on_err = [b for b, k in writers if b in reachable_from(c, err_t) and b not in reachable_from(c, ok_t)]
    # accepted idiom: the error value of apply is mapped by a closure (Result::map_err) that resets the state
    reset_in_map_err = False
    for t in c.calls():
        if not term_calls(t, r"result::Result::<T, E>::map_err$") or len(t.args) < 2:
            continue
        a0 = op_place(t.args[0])
        if a0 is None or a0.local != ap[0].dst.local:
            continue
        cl = op_place(t.args[1])
        cdef = [d for d in local_defs(c, cl.local) if hasattr(d, "rv") and d.rv == "aggregate"
                and d.j.get("agg") == "closure"] if cl is not None else []
        for d in cdef:
            k = fb.fns.get(d.j["def"])
            if k is None:
                continue
            upvars = [pl for nm, pl in k.j.get("dbg", []) if "file_system_state" in nm]
            stores_none = any(s.dst is not None and "*" in s.dst.proj and s.ops and any(
                hasattr(x, "rv") and x.rv == "aggregate" and x.j.get("variant") == "None"
                for x in local_defs(k, op_place(s.ops[0]).local) if op_place(s.ops[0]) is not None)
                for s in k.stmts() if not k.blocks[s.bb].cleanup)
            if upvars and stores_none:
                reset_in_map_err = True
    map_err_blocks = []
    if reset_in_map_err:
        map_err_blocks = [t.bb for t in c.calls() if term_calls(t, r"result::Result::<T, E>::map_err$") and op_place(t.args[0]) is not None
                          and op_place(t.args[0]).local == ap[0].dst.local]
    if before:
        # from the moment the new state is committed, every way out of compile() that is not the success
        # continuation of the applier must pass a reset of the state (any early return in between included)
        ok = True
        p = None
        for b0, k0 in before:
            nxt = c.blocks[b0].term.j.get("t")
            if nxt is None:
                continue
            p = path_without(c, nxt, c.return_blocks(), on_err + map_err_blocks + [ok_t])
            if p is not None and not (map_err_blocks == [] and reset_in_map_err):
                ok = False
                break
    else:
        ok = all(c.dominates(ok_t, b) for b, k in writers)
    cx.ob("R19.commit-after-apply", c.id + "|state-not-committed-before-apply", ok,
          "the new FileSystemState is stored (%s) before apply_file_system_operations runs and the error "
          "continuation does not reset it: after an I/O failure the next compile diffs against files that were "
          "never written and does not repair them" % ", ".join(k for b, k in before), c.loc(ap[0].line))

    # ---- R19.fresh-recreates ---------------------------------------------------
    g = fb.one(r"isograph_compiler::write_artifacts::get_file_system_operations$")
    sws = [s for s in discr_switches(g) if "None" in s["arms"] and "Some" in s["arms"]]
    ok = False
    for sw in sws:
        nr = reachable_from(g, sw["arms"]["None"]) - reachable_from(g, sw["arms"]["Some"])
        sr = reachable_from(g, sw["arms"]["Some"]) - reachable_from(g, sw["arms"]["None"])
        if any(blk_calls(g.blocks[b], r"FileSystemState::recreate_all$") for b in nr) and \
                any(blk_calls(g.blocks[b], r"FileSystemState::diff$") for b in sr):
            ok = True
    cx.ob("R19.fresh-recreates", g.id + "|no-state-means-recreate", ok,
          "without an in-memory state the planner must be recreate_all (and diff only with a state)", g.loc())
    import props.c18 as c18
    rc = fb.one(r"artifact_content::file_system_state::FileSystemState::recreate_all$")
    ops = c18.ops_pushed(rc)
    deletes = [a for a in ops if a.j["variant"] == "DeleteDirectory"]
    first_ok = bool(deletes) and c18.path_identity(rc, op_place(deletes[0].ops[0]).local) == ("arg", 2) and all(
        rc.dominates(deletes[0].bb, a.bb) for a in ops)
    cx.ob("R19.fresh-recreates", rc.id + "|starts-with-delete-root", first_ok,
          "recreate_all must open with DeleteDirectory(artifact directory) so that leftovers of an interrupted "
          "write are removed", rc.loc())
    # the applier stops at the first error (propagates) rather than continuing with a partial state
    apf = fb.one(r"isograph_compiler::write_artifacts::apply_file_system_operations$")
    n = 0
    cone = owner_cone(fb, [apf.id], crates={"isograph_compiler"})
    loops = blocks_calling(apf, r"Iterator>::next$")
    for W in cone_fns(fb, cone):
        for t in W.calls():
            if not (t.callee and re.search(FS_MUT, t.callee)):
                continue
            n += 1
            key = "%s|%s" % (apf.id, t.callee.split("::")[-1]) if W is apf else "%s|%s|%s" % (apf.id, W.name, t.callee.split("::")[-1])
            try:
                o, e = result_branch(W, t)
                if W is apf:
                    cont = any(b in reachable_from(apf, e) for b in loops)
                else:
                    # in a private helper: after the error no further mutation happens there, and the applier
                    # propagates the helper's error instead of going on with the next operation
                    after = reachable_from(W, e)
                    cont = any(b != t.bb and blk_calls(W.blocks[b], FS_MUT) for b in after)
                    for c in apf.calls():
                        if c.callee == W.id:
                            o2, e2 = result_branch(apf, c)
                            cont = cont or any(b in reachable_from(apf, e2) for b in loops)
                cx.ob("R19.applier-propagates", key, not cont,
                      "an I/O error in the applier is swallowed and the loop continues", W.loc(t.line))
            except AnchorError:
                # a helper may hand the Result to its caller unchanged (tail expression, possibly through map_err)
                returned = W is not apf and local_flows_from(W, 0, lambda d: d is t, 8) is not None
                ok = False
                if returned:
                    ok = True
                    for c in apf.calls():
                        if c.callee == W.id:
                            try:
                                o2, e2 = result_branch(apf, c)
                                ok = ok and not any(b in reachable_from(apf, e2) for b in loops)
                            except AnchorError:
                                ok = False
                cx.ob("R19.applier-propagates", key, ok,
                      "the result of a file-system call is not checked", W.loc(t.line))
    cx.floor("R19.applier-propagates fs calls", n, 4)
