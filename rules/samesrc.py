"""SAME-SRC: do two operands of one function derive from the same definition?"""
import re
from rulelib import *
from factbase import op_place, op_const

ADAPTERS = (r"Clone>?::clone$|::clone$|::inner$|Postfix::reference$|::reference$|::values$|::iter$|Deref>?::deref$|"
            r"AsRef<.*>>?::as_ref$|Borrow<.*>>?::borrow$|WrappedMergedSelectionMap::new$|::copied$|::cloned$|"
            r"IntoIterator>?::into_iter$|::as_ref$|::as_slice$|Iterator>?::collect$|::to_owned$|::to_vec$|"
            r"Option::<T>::(expect|unwrap)$|Result::<T, E>::(expect|unwrap)$|::as_str$|::as_bytes$|::as_mut$|DerefMut>?::deref_mut$")


def producer(fn, local, depth=40):
    """Canonical description of where the value in `local` comes from, looking through copies, refs, field reads
    and adapter calls (clone / inner / reference / values / wrapper constructors ...)."""
    path = []
    cur = local
    for _ in range(depth):
        if 1 <= cur <= fn.argc:
            return ("param", cur) + tuple(path)
        ds = local_defs(fn, cur)
        if len(ds) != 1:
            return ("multi", cur, tuple(sorted(getattr(d, "bb", -1) for d in ds))) + tuple(path)
        d = ds[0]
        if hasattr(d, "rv"):
            if d.rv in ("use", "ref", "copy_for_deref", "cast"):
                rs = d.reads()
                if not rs:
                    return ("const", cur) + tuple(path)
                for f in rs[0].fields():
                    path.append("." + f)
                cur = rs[0].local
                continue
            return ("stmt", d.bb, d.rv) + tuple(path)
        name = d.callee or d.declared or "?"
        if re.search(ADAPTERS, name) and d.args:
            a = op_place(d.args[0])
            if a is None:
                return ("call", d.bb, name) + tuple(path)
            for f in a.fields():
                path.append("." + f)
            cur = a.local
            continue
        return ("call", d.bb, name) + tuple(path)
    return ("deep", cur) + tuple(path)


def mutated_between(fn, root_local, bb_a, bb_b):
    """is there a call taking `&mut root_local` (or a projection of it) on a path between the two blocks?"""
    lo, hi = (bb_a, bb_b)
    between = fn.reachable(lo) & {b for b in range(len(fn.blocks)) if hi in fn.reachable(b)}
    between |= fn.reachable(hi) & {b for b in range(len(fn.blocks)) if lo in fn.reachable(b)}
    for b in between:
        t = fn.blocks[b].term
        if t.op != "call" or b in (bb_a, bb_b):
            continue
        for a in t.arg_places():
            if a is None:
                continue
            for d in local_defs(fn, a.local):
                if hasattr(d, "rv") and d.rv == "ref" and d.j.get("mut") and d.place is not None and d.place.local == root_local:
                    return t
    return None


def same_source(fn, la, lb, depth=2):
    """(bool, explanation)"""
    pa, pb = producer(fn, la), producer(fn, lb)
    if pa == pb:
        return True, "same definition %s" % (pa,)
    # strip trailing field paths that are equal
    if pa[0] == "call" and pb[0] == "call" and pa[2] == pb[2] and pa[3:] == pb[3:] and depth > 0:
        ca, cb = fn.blocks[pa[1]].term, fn.blocks[pb[1]].term
        if len(ca.args) == len(cb.args):
            ok = True
            why = []
            for xa, xb in zip(ca.args, cb.args):
                qa, qb = op_place(xa), op_place(xb)
                if qa is None or qb is None:
                    if op_const(xa) != op_const(xb):
                        ok = False
                    continue
                s, w = same_source(fn, qa.local, qb.local, depth - 1)
                if not s:
                    ok = False
                    why.append(w)
                    continue
                # the shared root must not be mutated between the two calls
                ra = producer(fn, qa.local)
                root = None
                if ra[0] in ("stmt", "multi", "const", "deep"):
                    root = ra[1] if ra[0] != "stmt" else None
                if ra[0] == "stmt":
                    # value built in place (e.g. a local Vec): find the local holding it
                    for st in fn.blocks[ra[1]].stmts:
                        if st.dst is not None and not st.dst.proj:
                            root = st.dst.local
                chain_roots = _roots(fn, qa.local) | _roots(fn, qb.local)
                for r in chain_roots:
                    m = mutated_between(fn, r, pa[1], pb[1])
                    if m is not None:
                        ok = False
                        why.append("operand mutated between the two calls by %s (L%d)" % ((m.callee or "?").split("::")[-1], m.line))
            if ok:
                return True, "two calls of %s with same-source operands" % pa[2].split("::")[-1]
            return False, "; ".join(why) or "operands of the two %s calls differ" % pa[2].split("::")[-1]
    return False, "%s vs %s" % (pa[:3], pb[:3])


def _roots(fn, local, depth=10):
    out = set()
    cur = local
    for _ in range(depth):
        out.add(cur)
        ds = local_defs(fn, cur)
        if len(ds) != 1:
            break
        d = ds[0]
        if hasattr(d, "rv"):
            rs = d.reads()
            if d.rv in ("use", "ref", "copy_for_deref") and rs:
                cur = rs[0].local
                continue
            break
        if re.search(ADAPTERS, d.callee or d.declared or "") and d.args and op_place(d.args[0]) is not None:
            cur = op_place(d.args[0]).local
            continue
        break
    return out
