"""Fact base loader and CFG / call-graph utilities over E1 (mirfacts) output.

Nothing here executes isograph code; it reads the JSON-lines fact files that
the rustc_private driver wrote for /repo's current working tree.
"""
import json, os, re, sys
from collections import defaultdict, deque


class Place:
    __slots__ = ("local", "proj")

    def __init__(self, j):
        self.local = j[0]
        self.proj = tuple(j[1])

    def __repr__(self):
        s = "_%d" % self.local
        for p in self.proj:
            if p == "*":
                s = "(*%s)" % s
            else:
                s += p
        return s

    def fields(self):
        return [p[1:] for p in self.proj if p.startswith(".")]

    def last_field(self):
        f = self.fields()
        return f[-1] if f else None

    def is_local(self):
        return not self.proj

    def key(self):
        return (self.local, self.proj)


def op_place(o):
    """Place read by an operand (copy/move) or None for constants."""
    if o is None:
        return None
    if "copy" in o:
        return Place(o["copy"])
    if "move" in o:
        return Place(o["move"])
    return None


def op_const(o):
    return o.get("const") if o else None


def op_repr(o):
    p = op_place(o)
    if p is not None:
        return ("move " if "move" in o else "") + repr(p)
    c = op_const(o)
    if c is None:
        return "?"
    if "fn" in c:
        return "fn:" + c["fn"]
    if "str" in c:
        return json.dumps(c["str"])
    if "variant" in c and c["variant"]:
        return "%s::%s" % (c["ty"], c["variant"])
    if "v" in c:
        return "%s:%s" % (c["v"], c["ty"])
    if "uneval" in c:
        return "const:" + c["uneval"]
    return "const<%s>" % c["ty"]


class Stmt:
    __slots__ = ("j", "dst", "rv", "ops", "place", "line", "expanded", "fn", "bb", "idx")

    def __init__(self, j, fn, bb, idx):
        self.j = j
        self.fn = fn
        self.bb = bb
        self.idx = idx
        self.dst = Place(j["dst"]) if "dst" in j else (Place(j["setdiscr"]) if "setdiscr" in j else None)
        self.rv = j.get("rv") or ("setdiscr" if "setdiscr" in j else "intrinsic")
        self.ops = j.get("ops", [])
        self.place = Place(j["place"]) if "place" in j else None
        sp = j.get("sp")
        self.line = sp[0] if sp else 0
        self.expanded = bool(sp[4]) if sp else False

    def reads(self):
        r = [op_place(o) for o in self.ops]
        r = [p for p in r if p is not None]
        if self.place is not None:
            r.append(self.place)
        return r

    def __repr__(self):
        rhs = self.rv
        if self.rv == "aggregate":
            a = self.j.get("agg")
            if a == "adt":
                rhs = "%s::%s{%s}" % (self.j["adt"], self.j["variant"], ", ".join(op_repr(o) for o in self.ops))
            else:
                rhs = "%s(%s)" % (a, ", ".join(op_repr(o) for o in self.ops))
        elif self.rv in ("ref", "rawptr", "discr", "copy_for_deref"):
            rhs = "%s%s %r" % (self.rv, " mut" if self.j.get("mut") else "", self.place)
        elif self.rv == "binop":
            rhs = "%s(%s)" % (self.j["binop"], ", ".join(op_repr(o) for o in self.ops))
        elif self.rv == "unop":
            rhs = "%s(%s)" % (self.j["unop"], ", ".join(op_repr(o) for o in self.ops))
        elif self.rv == "cast":
            rhs = "cast<%s>(%s) as %s" % (self.j["cast"], ", ".join(op_repr(o) for o in self.ops), self.j["to"])
        elif self.rv == "use":
            rhs = op_repr(self.ops[0])
        return "%r = %s" % (self.dst, rhs)


class Term:
    __slots__ = ("j", "op", "fn", "bb", "callee", "declared", "args", "dst", "line", "col", "expanded",
                 "callsite_line", "targs", "place")

    def __init__(self, j, fn, bb):
        self.j = j
        self.fn = fn
        self.bb = bb
        self.op = j["op"]
        self.declared = j.get("fn")
        self.callee = j.get("res") or j.get("fn")
        self.args = j.get("args", [])
        self.targs = j.get("targs", [])
        self.dst = Place(j["dst"]) if "dst" in j else None
        self.place = Place(j["place"]) if "place" in j else None
        sp = j.get("fsp") or j.get("sp")
        self.line = sp[0] if sp else 0
        self.col = sp[1] if sp else 0
        self.expanded = bool(sp[4]) if sp else False
        self.callsite_line = sp[5] if sp else 0

    def succs(self, unwind=False):
        j = self.j
        op = self.op
        out = []
        if op == "goto":
            out = [j["t"]]
        elif op == "switch":
            out = [a[1] for a in j["arms"]] + [j["otherwise"]]
        elif op in ("call", "drop", "assert", "yield"):
            if j.get("t") is not None:
                out = [j["t"]]
            if op == "yield" and j.get("drop") is not None and unwind:
                out.append(j["drop"])
            if unwind and j.get("u") is not None:
                out.append(j["u"])
        return out

    def arg_places(self):
        return [op_place(a) for a in self.args]

    def __repr__(self):
        if self.op == "call":
            return "%r = call %s(%s) -> %s" % (self.dst, self.callee or ("<indirect %s>" % op_repr(self.j.get("fnop"))),
                                               ", ".join(op_repr(a) for a in self.args), self.j.get("t"))
        if self.op == "switch":
            return "switch %s %s else %s" % (op_repr(self.j["discr"]), self.j["arms"], self.j["otherwise"])
        if self.op == "drop":
            return "drop %r -> %s" % (self.place, self.j.get("t"))
        if self.op == "assert":
            return "assert(%s) %s -> %s" % (op_repr(self.j["cond"]), self.j["msg"], self.j["t"])
        if self.op == "goto":
            return "goto %s" % self.j["t"]
        return self.op


class Block:
    __slots__ = ("i", "stmts", "term", "cleanup")


class Fn:
    def __init__(self, j):
        self.j = j
        self.id = j["id"]
        self.name = j["name"]
        self.crate = j["crate"]
        self.file = j["file"]
        self.lo = j["lo"]
        self.hi = j["hi"]
        self.expn = j["expn"]
        self.vis = j["vis"]
        self.impl_for = j.get("impl_for")
        self.trait = j.get("trait")
        self.root = j.get("root")
        self.is_async = j.get("async", False)
        self.argc = j["argc"]
        self.locals = j["locals"]
        self.ret = j.get("ret")
        self.unsafe_blocks = j.get("unsafe_blocks", [])
        self.blocks = []
        for i, b in enumerate(j["blocks"]):
            blk = Block()
            blk.i = i
            blk.cleanup = b["cleanup"]
            blk.stmts = [Stmt(s, self, i, k) for k, s in enumerate(b["stmts"])]
            blk.term = Term(b["term"], self, i)
            self.blocks.append(blk)
        self._preds = None
        self._dom = None
        self._pdom = None

    # ---- helpers -------------------------------------------------------
    def loc(self, line=None):
        return "%s:%s" % (self.file, line if line else self.lo)

    def local_ty(self, i):
        return self.locals[i]["ty"]

    def local_name(self, i):
        return self.locals[i]["name"]

    def macro_names(self):
        out = []
        for e in self.expn or []:
            m = re.match(r'Macro\((\w+), "([^"]+)"\)', e)
            if m:
                out.append((m.group(1), m.group(2)))
        return out

    def from_macro(self, name):
        return any(n == name for _, n in self.macro_names())

    def is_derive(self):
        return any(k == "Derive" for k, _ in self.macro_names())

    def calls(self):
        for b in self.blocks:
            if b.term.op == "call":
                yield b.term

    def stmts(self):
        for b in self.blocks:
            for s in b.stmts:
                yield s

    def succs(self, i, unwind=False):
        return self.blocks[i].term.succs(unwind)

    def preds(self):
        if self._preds is None:
            p = defaultdict(list)
            for b in self.blocks:
                for s in b.term.succs(True):
                    p[s].append(b.i)
            self._preds = p
        return self._preds

    def normal_blocks(self):
        return [b for b in self.blocks if not b.cleanup]

    def return_blocks(self):
        return [b.i for b in self.blocks if b.term.op == "return"]

    def reachable(self, start=0, unwind=False, avoid=(), stop=None):
        """Blocks reachable from `start` without entering blocks in `avoid`."""
        avoid = set(avoid)
        seen = set()
        q = deque([start])
        while q:
            b = q.popleft()
            if b in seen or b in avoid:
                continue
            seen.add(b)
            if stop and stop(self.blocks[b]):
                continue
            for s in self.succs(b, unwind):
                q.append(s)
        return seen

    def dominators(self):
        """dom[b] = set of blocks dominating b (normal edges only)."""
        if self._dom is not None:
            return self._dom
        n = len(self.blocks)
        reach = self.reachable(0)
        preds = defaultdict(list)
        for b in reach:
            for s in self.succs(b):
                preds[s].append(b)
        allb = set(reach)
        dom = {b: set(allb) for b in reach}
        dom[0] = {0}
        changed = True
        order = self.rpo()
        while changed:
            changed = False
            for b in order:
                if b == 0:
                    continue
                ps = [dom[p] for p in preds[b] if p in dom]
                new = set.intersection(*ps) if ps else set()
                new = new | {b}
                if new != dom[b]:
                    dom[b] = new
                    changed = True
        self._dom = dom
        return dom

    def rpo(self):
        seen = set()
        order = []

        def dfs(b):
            stack = [(b, iter(self.succs(b)))]
            seen.add(b)
            while stack:
                node, it = stack[-1]
                adv = False
                for s in it:
                    if s not in seen:
                        seen.add(s)
                        stack.append((s, iter(self.succs(s))))
                        adv = True
                        break
                if not adv:
                    order.append(node)
                    stack.pop()

        dfs(0)
        return list(reversed(order))

    def dominates(self, a, b):
        d = self.dominators()
        return b in d and a in d[b]

    def path_avoiding(self, src, dst_pred, avoid_pred, unwind=False):
        """Return a block path from src to a block satisfying dst_pred that does not pass
        through (the terminator of) any block satisfying avoid_pred, or None.
        avoid_pred is evaluated on every block on the path including src, excluding the dst."""
        prev = {src: None}
        q = deque([src])
        while q:
            b = q.popleft()
            blk = self.blocks[b]
            if dst_pred(blk):
                path = []
                x = b
                while x is not None:
                    path.append(x)
                    x = prev[x]
                return list(reversed(path))
            if avoid_pred(blk):
                continue
            for s in self.succs(b, unwind):
                if s not in prev:
                    prev[s] = b
                    q.append(s)
        return None

    def dump(self, out=sys.stdout):
        out.write("fn %s  [%s:%d-%d] expn=%s\n" % (self.id, self.file, self.lo, self.hi, self.expn))
        for i, l in enumerate(self.locals):
            out.write("    let _%d: %s%s\n" % (i, l["ty"], ("  // " + l["name"]) if l["name"] else ""))
        for b in self.blocks:
            out.write("  bb%d%s:\n" % (b.i, " (cleanup)" if b.cleanup else ""))
            for s in b.stmts:
                out.write("      %r   // L%d\n" % (s, s.line))
            out.write("      %r   // L%d\n" % (b.term, b.term.line))


class FactBase:
    def __init__(self, dirs_or_files):
        self.fns = {}
        self.adts = {}
        self.impls = []
        self.aliases = {}
        self.consts = {}
        self.crates = {}
        self.files_loaded = []
        for p in dirs_or_files:
            if os.path.isdir(p):
                for f in sorted(os.listdir(p)):
                    if f.endswith(".jsonl"):
                        self._load(os.path.join(p, f))
            else:
                self._load(p)
        self._callers = None
        self._by_name = None
        self._canonicalise()
        self._normalise_renames()

    def _canonicalise(self):
        """Cross-crate callees are printed by rustc through their re-exported path; rewrite them to the id the
        callee has in its own crate (joined on the re-export independent def-path key)."""
        by_key = {f.j.get("key"): f for f in self.fns.values() if f.j.get("key")}
        self.fns_by_key = by_key
        for f in self.fns.values():
            for b in f.blocks:
                t = b.term
                if t.op != "call":
                    continue
                rk, fk = t.j.get("resk"), t.j.get("fnk")
                if rk in by_key:
                    t.callee = by_key[rk].id
                elif fk in by_key and t.j.get("res") is None:
                    t.callee = by_key[fk].id
                if fk in by_key:
                    t.declared = by_key[fk].id

    def _normalise_renames(self):
        """Rules name functions; a pure rename of one of the named functions must not blind them. For every function
        recorded in rules/anchors.json (all functions any rule refers to by name, with their signature on the pinned
        tree) that is missing from the loaded crates, the unique function of the same crate with the same parameter
        types, return type and impl self type / trait - and not itself a recorded function - is given the recorded id
        back (ids, closure ids and every call edge are rewritten in the fact base). Substitutions are listed in
        FactBase.renamed and end up in the evidence notes. Ambiguous cases are left alone (the anchor then fails)."""
        if FactBase._anchor_table is None:
            try:
                with open(os.path.join(os.path.dirname(os.path.abspath(__file__)), "anchors.json")) as fh:
                    FactBase._anchor_table = json.load(fh)
            except OSError:
                FactBase._anchor_table = {}
        table = FactBase._anchor_table
        crates = {f.crate for f in self.fns.values()}
        known = {v["id"] for v in table.values()}
        ren = {}
        for rx, rec in sorted(table.items()):
            if rec["crate"] not in crates or rec["id"] in self.fns or rec["id"] in ren.values():
                continue
            cands = [f for f in self.fns.values() if f.crate == rec["crate"] and not f.root and f.id not in known
                     and f.id not in ren and f.impl_for == rec["impl_for"] and f.j.get("trait") == rec["trait"] and f.ret == rec["ret"]
                     and [f.local_ty(i) for i in range(1, f.argc + 1)] == rec["argtys"]]
            same_file = [f for f in cands if f.file == rec["file"]]
            pick = same_file if len(same_file) == 1 else cands
            if len(pick) == 1:
                ren[pick[0].id] = rec["id"]
        if not ren:
            return

        def rn(x):
            if not isinstance(x, str):
                return x
            for old, new in ren.items():
                if x == old or x.startswith(old + "::{"):
                    return new + x[len(old):]
            return x
        for f in list(self.fns.values()):
            nid = rn(f.id)
            if nid != f.id:
                if f.id in ren:
                    f.name = nid.split("::")[-1]
                    f.j["name"] = f.name
                    msg = "function %s is analysed under its recorded name %s (same signature, unique: a rename)" % (f.id, nid)
                    if msg not in FactBase.renamed:
                        FactBase.renamed.append(msg)
                f.id = nid
                f.j["id"] = nid
            f.root = rn(f.root)
            for b in f.blocks:
                t = b.term
                if t.op == "call":
                    t.callee, t.declared = rn(t.callee), rn(t.declared)
                    for a in t.args:
                        c = a.get("const") if isinstance(a, dict) else None
                        if c and "fn" in c:
                            c["fn"] = rn(c["fn"])
                for st in b.stmts:
                    if st.j.get("def"):
                        st.j["def"] = rn(st.j["def"])
                    for a in st.ops:
                        c = a.get("const") if isinstance(a, dict) else None
                        if c and "fn" in c:
                            c["fn"] = rn(c["fn"])
        self.fns = {f.id: f for f in self.fns.values()}

    def _load(self, path):
        self.files_loaded.append(path)
        with open(path) as fh:
            for line in fh:
                if not line.strip():
                    continue
                j = json.loads(line)
                k = j["k"]
                if k == "fn":
                    f = Fn(j)
                    self.fns[f.id] = f
                elif k == "adt":
                    self.adts[j["id"]] = j
                elif k == "impl":
                    self.impls.append(j)
                elif k == "alias":
                    self.aliases[j["id"]] = j
                elif k == "const":
                    self.consts[j["id"]] = j
                elif k == "crate":
                    self.crates[j["name"]] = j

    # ---- lookup -------------------------------------------------------
    def find(self, pattern, crate=None):
        """Functions whose id matches the regex `pattern` (search)."""
        rx = re.compile(pattern)
        return [f for f in self.fns.values() if rx.search(f.id) and (crate is None or f.crate == crate)]

    def one(self, pattern, crate=None):
        r = self.find(pattern, crate)
        if len(r) != 1:
            raise AnchorError("anchor %r: expected exactly one function, found %d: %s" %
                              (pattern, len(r), [f.id for f in r][:6]))
        return r[0]

    _anchor_table = None
    renamed = []

    def _by_signature(self, pattern):
        """A name anchor that no longer matches: follow a pure rename. The function recorded for this anchor on the
        pinned tree (rules/anchors.json) is looked up by its signature - same crate, same parameter and return types,
        same impl self type / trait - among the functions that did not exist under that id before. Only a unique
        candidate is accepted; the substitution is listed in FactBase.renamed (copied into the evidence notes)."""
        if FactBase._anchor_table is None:
            try:
                with open(os.path.join(os.path.dirname(os.path.abspath(__file__)), "anchors.json")) as fh:
                    FactBase._anchor_table = json.load(fh)
            except OSError:
                FactBase._anchor_table = {}
        rec = FactBase._anchor_table.get(pattern)
        if not rec or rec["id"] in self.fns:
            return None
        known = {v["id"] for v in FactBase._anchor_table.values()}
        cands = [f for f in self.fns.values() if f.crate == rec["crate"] and not f.root and f.id not in known
                 and f.impl_for == rec["impl_for"] and f.j.get("trait") == rec["trait"] and f.ret == rec["ret"]
                 and [f.local_ty(i) for i in range(1, f.argc + 1)] == rec["argtys"]]
        same_file = [f for f in cands if f.file == rec["file"]]
        pick = same_file if len(same_file) == 1 else cands
        if len(pick) == 1:
            FactBase.renamed.append("anchor %s: %s not found; using %s (same signature, unique)" % (pattern, rec["id"], pick[0].id))
            return pick[0]
        return None

    def methods(self, name, impl_for=None, trait=None, crate=None):
        """Assoc fns by name, optionally restricted by regexes on the impl's self type / trait."""
        out = []
        for f in self.fns.values():
            if f.name != name or f.j.get("defkind") != "AssocFn":
                continue
            if crate and f.crate != crate:
                continue
            if impl_for is not None and not (f.impl_for and re.search(impl_for, f.impl_for)):
                continue
            if trait is not None and not (f.trait and re.search(trait, f.trait)):
                continue
            out.append(f)
        return out

    def method(self, name, impl_for=None, trait=None, crate=None):
        r = self.methods(name, impl_for, trait, crate)
        if len(r) != 1:
            raise AnchorError("anchor method %s (impl_for=%s trait=%s): expected one, found %d" %
                              (name, impl_for, trait, len(r)))
        return r[0]

    def closures_of(self, fn):
        pre = fn.id + "::{"
        return [f for f in self.fns.values() if f.id.startswith(pre)]

    def with_closures(self, fn):
        return [fn] + self.closures_of(fn)

    def callers(self):
        if self._callers is None:
            c = defaultdict(list)
            for f in self.fns.values():
                for t in f.calls():
                    if t.callee:
                        c[t.callee].append(t)
                    if t.declared and t.declared != t.callee:
                        c[t.declared].append(t)
            self._callers = c
        return self._callers

    def calls_to(self, pattern):
        rx = re.compile(pattern)
        out = []
        for f in self.fns.values():
            for t in f.calls():
                if any(n and rx.search(n) for n in (t.callee, t.declared, t.j.get("res"), t.j.get("fn"))):
                    out.append(t)
        return out

    def trait_impl_methods(self, trait_method_id):
        """Workspace functions that implement the trait method named by `trait_method_id`
        (e.g. `pico::database::StorageDyn::foo`) — used to over-approximate dynamic calls."""
        tr, _, m = trait_method_id.rpartition("::")
        out = []
        for f in self.fns.values():
            if f.name == m and f.trait == tr and f.impl_for:
                out.append(f)
        return out

    def callees(self, fn, include_closures=True, overapprox=True):
        """Set of workspace Fn objects possibly called from fn (resolved callees; unresolved
        trait-method calls are linked to all workspace impls); closures defined in fn are
        treated as called."""
        out = {}
        todo = [fn]
        if include_closures:
            todo += self.closures_of(fn)
        for f in todo:
            if f is not fn:
                out[f.id] = f
            for t in f.calls():
                c = t.callee
                if c in self.fns:
                    out[c] = self.fns[c]
                elif t.declared in self.fns:
                    out[t.declared] = self.fns[t.declared]
                if overapprox and t.j.get("trait") and (t.j.get("res") is None or t.j.get("rk") == "virtual"):
                    for g in self.trait_impl_methods(t.declared):
                        out[g.id] = g
        return out

    def reachable_fns(self, roots, stop=lambda f: False, overapprox=True):
        seen = {}
        q = deque(roots)
        while q:
            f = q.popleft()
            if f.id in seen:
                continue
            seen[f.id] = f
            if stop(f) and f not in roots:
                continue
            for g in self.callees(f, overapprox=overapprox).values():
                if g.id not in seen:
                    q.append(g)
        return seen

    def reaches(self, fn, target_rx, depth=6, _memo=None):
        """Does fn (transitively, through workspace callees up to depth) call something matching target_rx?"""
        rx = re.compile(target_rx) if isinstance(target_rx, str) else target_rx
        memo = _memo if _memo is not None else {}
        return self._reaches(fn, rx, depth, memo, set())

    def _reaches(self, fn, rx, depth, memo, stack):
        key = (fn.id, depth)
        if key in memo:
            return memo[key]
        if fn.id in stack:
            return False
        stack.add(fn.id)
        res = False
        for f in self.with_closures(fn):
            for t in f.calls():
                if (t.callee and rx.search(t.callee)) or (t.declared and rx.search(t.declared)):
                    res = True
                    break
            if res:
                break
        if not res and depth > 0:
            for g in self.callees(fn).values():
                if self._reaches(g, rx, depth - 1, memo, stack):
                    res = True
                    break
        stack.discard(fn.id)
        memo[key] = res
        return res


class AnchorError(Exception):
    pass
