"""Fact pipeline: tree hash of /repo -> /verif/.cache/facts/<hash>/{mir,syn,ts}.

Every check calls ensure_facts(); if no fact directory exists for the *current*
contents of /repo the extraction is re-run from the working tree, so checks
always analyse exactly the sources that are in /repo when they are invoked.
"""
import fcntl, hashlib, json, os, shutil, subprocess, sys, time

VERIF = os.path.dirname(os.path.dirname(os.path.abspath(__file__)))
REPO = os.environ.get("VERIF_REPO", "/repo")
CACHE = os.environ.get("VERIF_CACHE", os.path.join(VERIF, ".cache"))
TOOLS = os.path.join(CACHE, "tools")
TARGET = os.environ.get("VERIF_TARGET", os.path.join(CACHE, "target"))
FACTS = os.path.join(CACHE, "facts")

HASH_ROOTS = ["crates", "relay-crates", "libs/isograph-react/src/core", "libs/isograph-babel-plugin"]
HASH_FILES = ["Cargo.toml", "Cargo.lock"]
HASH_EXT = (".rs", ".toml", ".ts", ".tsx", ".js", ".lock")

MEMBERS = None


class CheckError(Exception):
    pass


def tree_hash(repo=None):
    repo = repo or REPO
    h = hashlib.sha256()
    paths = []
    for r in HASH_ROOTS:
        base = os.path.join(repo, r)
        for dp, dns, fns in os.walk(base):
            dns[:] = sorted(d for d in dns if d not in ("target", "node_modules", ".git", "dist"))
            for fn in sorted(fns):
                if fn.endswith(HASH_EXT):
                    paths.append(os.path.join(dp, fn))
    for f in HASH_FILES:
        paths.append(os.path.join(repo, f))
    for p in sorted(paths):
        try:
            with open(p, "rb") as fh:
                data = fh.read()
        except OSError:
            continue
        h.update(os.path.relpath(p, repo).encode())
        h.update(b"\0")
        h.update(hashlib.sha256(data).digest())
    # the extractor itself is part of the key: a rebuilt tool re-extracts
    for tool in ("tools/mirfacts/src/main.rs", "tools/synfacts/src/main.rs", "tools/tsfacts/src/main.rs"):
        p = os.path.join(VERIF, tool)
        if os.path.exists(p):
            with open(p, "rb") as fh:
                h.update(hashlib.sha256(fh.read()).digest())
    return h.hexdigest()[:16]


def nightly_sysroot():
    return subprocess.check_output(["rustc", "+nightly", "--print", "sysroot"], text=True).strip()


def base_env():
    env = dict(os.environ)
    env["CARGO_NET_OFFLINE"] = "true"
    env.pop("RUSTC_WRAPPER", None)
    return env


def run(cmd, cwd=None, env=None, log=None, timeout=3600):
    t0 = time.time()
    p = subprocess.run(cmd, cwd=cwd, env=env, stdout=subprocess.PIPE, stderr=subprocess.STDOUT, text=True,
                       timeout=timeout)
    if log:
        with open(log, "a") as fh:
            fh.write("$ %s  (cwd=%s)\n%s\n[exit %d, %.1fs]\n" % (" ".join(cmd), cwd, p.stdout, p.returncode,
                                                                 time.time() - t0))
    return p


def build_tool(name):
    """Build one of the fact extractors into .cache/tools (idempotent)."""
    src = os.path.join(VERIF, "tools", name)
    tdir = os.path.join(TOOLS, name + "-target")
    os.makedirs(tdir, exist_ok=True)
    env = base_env()
    env["CARGO_TARGET_DIR"] = tdir
    lock = os.path.join(src, "Cargo.lock")
    if name != "mirfacts" and not os.path.exists(lock):
        shutil.copy(os.path.join(REPO, "Cargo.lock"), lock)
    p = run(["cargo", "build", "--offline", "--release"] if name != "mirfacts" else ["cargo", "build", "--offline"],
            cwd=src, env=env, log=os.path.join(CACHE, "build.log"))
    if p.returncode != 0:
        raise CheckError("building tool %s failed:\n%s" % (name, p.stdout[-3000:]))
    sub = "debug" if name == "mirfacts" else "release"
    return os.path.join(tdir, sub, name)


def tool_path(name):
    sub = "debug" if name == "mirfacts" else "release"
    p = os.path.join(TOOLS, name + "-target", sub, name)
    if not os.path.exists(p) or os.path.getmtime(p) < os.path.getmtime(
            os.path.join(VERIF, "tools", name, "src", "main.rs")):
        p = build_tool(name)
    return p


def workspace_members(repo=None):
    repo = repo or REPO
    p = subprocess.run(["cargo", "metadata", "--offline", "--no-deps", "--format-version", "1"], cwd=repo,
                       env=base_env(), stdout=subprocess.PIPE, stderr=subprocess.PIPE, text=True)
    if p.returncode != 0:
        raise CheckError("cargo metadata failed: " + p.stderr[-2000:])
    m = json.loads(p.stdout)
    return sorted(pk["name"] for pk in m["packages"])


EXPECTED_MIR = ["pico.lib", "pico_macros.lib", "intern.lib", "isograph_schema.lib", "isograph_compiler.lib",
                "artifact_content.lib", "graphql_network_protocol.lib", "isograph_lang_parser.lib",
                "isograph_lang_types.lib", "isograph_lsp.lib", "common_lang_types.lib", "signedsource.lib",
                "swc_isograph_plugin.lib", "isograph_config.lib", "graphql_schema_parser.lib",
                "resolve_position.lib", "isograph_cli.bin", "graphql_syntax.lib"]


def extract_mir(repo, outdir, target=None, packages=None, log=None):
    """Run the E1 driver over the workspace in `repo`, writing <crate>.<kind>.jsonl into outdir."""
    target = target or TARGET
    drv = tool_path("mirfacts")
    os.makedirs(outdir, exist_ok=True)
    os.makedirs(target, exist_ok=True)
    # cargo's freshness cache would skip the wrapper: forget the members' fingerprints
    fp = os.path.join(target, "debug", ".fingerprint")
    members = workspace_members(repo)
    if os.path.isdir(fp):
        for d in os.listdir(fp):
            stem = d.rsplit("-", 1)[0]
            if stem in members:
                shutil.rmtree(os.path.join(fp, d), ignore_errors=True)
    env = base_env()
    env["LD_LIBRARY_PATH"] = nightly_sysroot() + "/lib"
    env["RUSTFLAGS"] = "-Zmir-opt-level=0 -Awarnings"
    env["RUSTC_WORKSPACE_WRAPPER"] = drv
    env["MIRFACTS_OUT"] = outdir
    env["CARGO_TARGET_DIR"] = target
    cmd = ["cargo", "+nightly", "check", "--offline"]
    if packages:
        for p in packages:
            cmd += ["-p", p]
    else:
        cmd += ["--workspace", "--exclude", "fixture-tests"]
    t0 = time.time()
    p = run(cmd, cwd=repo, env=env, log=log)
    if p.returncode != 0:
        raise CheckError("fact extraction: cargo +nightly check failed in %s:\n%s" % (repo, p.stdout[-4000:]))
    if not packages:
        for e in EXPECTED_MIR:
            f = os.path.join(outdir, e + ".jsonl")
            if not os.path.exists(f) or os.path.getmtime(f) < t0 - 1:
                raise CheckError("fact extraction: expected fact file %s missing or stale" % f)
    return time.time() - t0


def ensure_facts(quiet=False):
    """Return (facts_dir, tree_hash). Extracts if there is no fact base for the current tree."""
    os.makedirs(FACTS, exist_ok=True)
    lockf = open(os.path.join(FACTS, ".lock"), "w")
    fcntl.flock(lockf, fcntl.LOCK_EX)
    try:
        h = tree_hash()
        d = os.path.join(FACTS, h)
        done = os.path.join(d, ".done")
        if os.path.exists(done):
            try:
                os.utime(d, None)      # LRU: pruning goes by directory mtime
            except OSError:
                pass
            return d, h
        if os.path.isdir(d):
            shutil.rmtree(d)
        tmp = d + ".tmp"
        if os.path.isdir(tmp):
            shutil.rmtree(tmp)
        os.makedirs(tmp)
        if not quiet:
            sys.stderr.write("[facts] extracting facts for tree %s ...\n" % h)
        log = os.path.join(tmp, "extract.log")
        secs = extract_mir(REPO, os.path.join(tmp, "mir"), log=log)
        from extra_facts import extract_extra
        extract_extra(REPO, tmp, log)
        # the tree must not have changed under us
        if tree_hash() != h:
            raise CheckError("repository changed during fact extraction")
        with open(os.path.join(tmp, ".done"), "w") as fh:
            json.dump({"tree_hash": h, "mir_seconds": secs, "at": time.time()}, fh)
        os.rename(tmp, d)
        prune(keep=d)
        return d, h
    finally:
        fcntl.flock(lockf, fcntl.LOCK_UN)
        lockf.close()


def prune(keep, n=8):
    ds = [os.path.join(FACTS, x) for x in os.listdir(FACTS) if os.path.isdir(os.path.join(FACTS, x))]
    ds.sort(key=lambda p: os.path.getmtime(p), reverse=True)
    for p in ds[n:]:
        if p != keep:
            shutil.rmtree(p, ignore_errors=True)


WITNESS_TARGET = os.path.join(os.environ["VERIF_TARGET"] + "-witness") if os.environ.get("VERIF_TARGET") else os.path.join(CACHE, "witness-target")


def ensure_witness(facts_dir):
    """E5 + E6: run the compile-fail witnesses (rustdoc, nothing is executed: `compile_fail` / `no_run`)
    and dump MIR facts of the probe crate.  Cached per tree in <facts_dir>/witness/."""
    out = os.path.join(facts_dir, "witness")
    done = os.path.join(out, "result.json")
    lockf = open(os.path.join(FACTS, ".wlock"), "w")
    fcntl.flock(lockf, fcntl.LOCK_EX)
    try:
        if os.path.exists(done):
            with open(done) as fh:
                return json.load(fh)
        if os.path.isdir(out):
            shutil.rmtree(out)
        os.makedirs(out)
        wdir = os.path.join(VERIF, "witness")
        if os.path.realpath(REPO) != "/repo":
            # self-tests analyse a scratch copy: the witness crate must depend on that copy, not on /repo
            wcopy = os.path.join(out, "crate")
            shutil.copytree(wdir, wcopy, ignore=shutil.ignore_patterns("Cargo.lock", "target"))
            with open(os.path.join(wcopy, "Cargo.toml")) as fh:
                toml = fh.read().replace('"/repo/', '"%s/' % os.path.realpath(REPO))
            with open(os.path.join(wcopy, "Cargo.toml"), "w") as fh:
                fh.write(toml)
            wdir = wcopy
        shutil.copy(os.path.join(REPO, "Cargo.lock"), os.path.join(wdir, "Cargo.lock"))
        drv = tool_path("mirfacts")
        fp = os.path.join(WITNESS_TARGET, "debug", ".fingerprint")
        if os.path.isdir(fp):
            for d in os.listdir(fp):
                if d.rsplit("-", 1)[0] in ("witness", "pico", "pico_macros", "intern", "u64_newtypes"):
                    shutil.rmtree(os.path.join(fp, d), ignore_errors=True)
        env = base_env()
        env["LD_LIBRARY_PATH"] = nightly_sysroot() + "/lib"
        env["RUSTFLAGS"] = "-Zmir-opt-level=0 -Awarnings"
        env["RUSTC_WORKSPACE_WRAPPER"] = drv
        env["MIRFACTS_OUT"] = out
        env["MIRFACTS_ONLY"] = "witness"
        env["CARGO_TARGET_DIR"] = WITNESS_TARGET
        log = os.path.join(out, "witness.log")
        p = run(["cargo", "+nightly", "test", "--doc", "--offline", "--", "--test-threads", "8"], cwd=wdir, env=env,
                log=log)
        tests = {}
        import re as _re
        for line in p.stdout.splitlines():
            m = _re.match(r"test src/lib.rs - (\w+) \(line \d+\) - (compile fail|compile) \.\.\. (\w+)", line)
            if m:
                tests.setdefault(m.group(1), {})["witness" if m.group(2) == "compile fail" else "twin"] = m.group(3)
        built = os.path.exists(os.path.join(out, "witness.lib.jsonl"))
        res = {"tests": tests, "exit": p.returncode, "probe_facts": built, "tail": p.stdout[-1500:]}
        if not tests and p.returncode != 0:
            raise CheckError("witness crate did not build:\n" + p.stdout[-3000:])
        with open(done, "w") as fh:
            json.dump(res, fh, indent=1)
        return res
    finally:
        fcntl.flock(lockf, fcntl.LOCK_UN)
        lockf.close()


if __name__ == "__main__":
    sys.path.insert(0, os.path.dirname(os.path.abspath(__file__)))
    if len(sys.argv) > 1 and sys.argv[1] == "--hash":
        print(tree_hash())
    elif len(sys.argv) > 1 and sys.argv[1] == "--setup":
        for t in ("mirfacts", "synfacts"):
            print(build_tool(t))
        d, h = ensure_facts()
        print(d)
    else:
        d, h = ensure_facts()
        print(d)
