"""Path / branch / event helpers shared by the property rules."""
import re
from factbase import Place, op_place, op_const, AnchorError


# ---------------------------------------------------------------- events
def rx(p):
    return re.compile(p) if isinstance(p, str) else p


def term_calls(term, pattern):
    if term.op != "call":
        return False
    r = rx(pattern)
    # callee / declared are canonical ids when the callee's crate is loaded; the names rustc printed (possibly
    # through a re-export) are kept in the raw record - a pattern may use either spelling
    for n in (term.callee, term.declared, term.j.get("res"), term.j.get("fn")):
        if n and r.search(n):
            return True
    return False


def blk_calls(blk, pattern):
    return term_calls(blk.term, pattern)


def blocks_calling(fn, pattern):
    return [b.i for b in fn.blocks if blk_calls(b, pattern)]


def stores_to_field(fn, field_pattern, blocks=None):
    """Statements (and call destinations) writing a place whose last field matches."""
    r = rx(field_pattern)
    out = []
    for b in fn.blocks:
        if blocks is not None and b.i not in blocks:
            continue
        for s in b.stmts:
            if s.dst is not None and s.dst.proj:
                lf = s.dst.last_field()
                if lf and r.fullmatch(lf) and s.dst.proj[-1] == "." + lf:
                    out.append(s)
        t = b.term
        if t.op == "call" and t.dst is not None and t.dst.proj:
            lf = t.dst.last_field()
            if lf and r.fullmatch(lf) and t.dst.proj[-1] == "." + lf:
                out.append(t)
    return out


def aggregates(fn, adt_pattern, variant=None, blocks=None):
    r = rx(adt_pattern)
    out = []
    for b in fn.blocks:
        if blocks is not None and b.i not in blocks:
            continue
        for s in b.stmts:
            if s.rv == "aggregate" and s.j.get("agg") == "adt" and r.search(s.j["adt"]):
                if variant is None or s.j["variant"] == variant:
                    out.append(s)
    return out


# ---------------------------------------------------------------- branches
def local_defs(fn, local):
    """All statements / call terminators that assign the bare local."""
    out = []
    for b in fn.blocks:
        for s in b.stmts:
            if s.dst is not None and s.dst.local == local and not s.dst.proj:
                out.append(s)
        t = b.term
        if t.op == "call" and t.dst is not None and t.dst.local == local and not t.dst.proj:
            out.append(t)
    return out


def bool_switch_targets(fn, bb):
    """If block bb ends in a switch on a bool-typed local, return (local, true_target, false_target,
    negations) where `local` is the root local after stripping `Not` / copies made in this block."""
    blk = fn.blocks[bb]
    t = blk.term
    if t.op != "switch":
        return None
    p = op_place(t.j["discr"])
    if p is None or p.proj:
        return None
    if "bool" != fn.local_ty(p.local):
        return None
    arms = t.j["arms"]
    if len(arms) != 1 or arms[0][0] != "0":
        return None
    false_t, true_t = arms[0][1], t.j["otherwise"]
    local = p.local
    neg = False
    # strip Not / copies defined in this block (walk statements backwards)
    for s in reversed(blk.stmts):
        if s.dst is not None and s.dst.local == local and not s.dst.proj:
            if s.rv == "unop" and s.j.get("unop") == "Not":
                q = op_place(s.ops[0])
                if q is not None and not q.proj:
                    local = q.local
                    neg = not neg
                    continue
            if s.rv == "use":
                q = op_place(s.ops[0])
                if q is not None and not q.proj:
                    local = q.local
                    continue
            break
    if neg:
        true_t, false_t = false_t, true_t
    return local, true_t, false_t


def call_bool_branch(fn, call_term):
    """For a call returning bool whose result is branched on in its successor block:
    (true_target, false_target); raises AnchorError otherwise."""
    tgt = call_term.j.get("t")
    if tgt is None or call_term.dst is None:
        raise AnchorError("call %s has no normal successor" % call_term.callee)
    seen = set()
    b = tgt
    while b not in seen:
        seen.add(b)
        r = bool_switch_targets(fn, b)
        if r is not None and r[0] == call_term.dst.local:
            return r[1], r[2]
        blk = fn.blocks[b]
        if blk.term.op == "goto" and not blk.stmts:
            b = blk.term.j["t"]
            continue
        break
    # the result may be bound to a variable and branched on later: accept a unique switch on it (or a copy)
    aliases = {call_term.dst.local}
    changed = True
    while changed:
        changed = False
        for s in fn.stmts():
            if s.rv == "use" and s.dst is not None and not s.dst.proj and s.dst.local not in aliases:
                q = op_place(s.ops[0])
                if q is not None and not q.proj and q.local in aliases:
                    aliases.add(s.dst.local)
                    changed = True
    hits = []
    for blk in fn.blocks:
        r = bool_switch_targets(fn, blk.i)
        if r is not None and r[0] in aliases:
            hits.append(r)
    if len(hits) == 1:
        return hits[0][1], hits[0][2]
    raise AnchorError("result of %s in %s is not branched on (found %d switches)" % (call_term.callee, fn.id, len(hits)))


def discr_switches(fn):
    """Yield dicts for every `switch` on an enum discriminant:
    {bb, place, adt, arms:{variant_name:target}, otherwise, term}.  Variants not listed in the
    switch arms are mapped to the otherwise target (wildcard expansion)."""
    for blk in fn.blocks:
        t = blk.term
        if t.op != "switch":
            continue
        p = op_place(t.j["discr"])
        if p is None or p.proj:
            continue
        d = None
        for s in reversed(blk.stmts):
            if s.dst is not None and s.dst.local == p.local and not s.dst.proj:
                if s.rv == "discr":
                    d = s
                break
        if d is None:
            # the discriminant may have been read in a dominating predecessor block
            defs = [s for s in local_defs(fn, p.local) if getattr(s, "rv", None) == "discr"]
            if len(defs) == 1:
                d = defs[0]
        if d is None:
            continue
        vmap = {v: n for v, n in d.j.get("vmap", [])}
        arms = {}
        listed = set()
        for v, tgt in t.j["arms"]:
            name = vmap.get(v, v)
            arms[name] = tgt
            listed.add(v)
        wildcard = [n for v, n in d.j.get("vmap", []) if v not in listed]
        other = t.j["otherwise"]
        other_unreachable = fn.blocks[other].term.op == "unreachable" and not fn.blocks[other].stmts
        if not other_unreachable:
            for n in wildcard:
                arms[n] = other
        yield {"bb": blk.i, "place": d.place, "adt": d.j.get("adt"), "arms": arms, "otherwise": other,
               "wildcard": [] if other_unreachable else wildcard, "term": t, "stmt": d}


def switch_on_call_result(fn, call_term):
    """discr switch whose scrutinee is the destination local of call_term (possibly after a move)."""
    if call_term.dst is None:
        return None
    loc = call_term.dst.local
    aliases = {loc}
    for s in fn.stmts():
        if s.rv == "use" and s.dst is not None and not s.dst.proj:
            q = op_place(s.ops[0])
            if q is not None and not q.proj and q.local in aliases:
                aliases.add(s.dst.local)
    for sw in discr_switches(fn):
        if sw["place"].local in aliases and not [p for p in sw["place"].proj if p != "*"]:
            return sw
    return None


# ---------------------------------------------------------------- paths
def path_without(fn, src, dst_blocks, event_blocks, unwind=False):
    """A path src -> (any block in dst_blocks) that does not pass through a block in event_blocks
    (the event of a block happens before leaving it; a dst block that is itself an event block counts
    as passing the event).  Returns block list or None."""
    ev = set(event_blocks)
    dst = set(dst_blocks)
    return fn.path_avoiding(src, lambda b: b.i in dst and b.i not in ev, lambda b: b.i in ev, unwind)


def reachable_from(fn, src, stop_blocks=()):
    """Blocks reachable from src (normal edges); exploration does not continue *through* stop blocks
    but includes them."""
    stop = set(stop_blocks)
    return fn.reachable(src, stop=lambda b: b.i in stop)


def fmt_path(fn, path):
    if not path:
        return ""
    return " -> ".join("bb%d(L%d)" % (b, fn.blocks[b].term.line) for b in path)


# ---------------------------------------------------------------- summaries
def must_reach_summary(fb, fns, base_pattern, extra_ok=None):
    """Fixpoint: set of function ids (among `fns`) such that every entry->return path contains a call
    to something matching base_pattern or to a function already in the set."""
    r = rx(base_pattern)
    have = set()
    changed = True
    while changed:
        changed = False
        for f in fns:
            if f.id in have:
                continue
            ev = []
            for b in f.blocks:
                t = b.term
                if t.op == "call":
                    if term_calls(t, r) or (t.callee in have) or (t.declared in have):
                        ev.append(b.i)
            rets = f.return_blocks()
            if not rets:
                continue
            if path_without(f, 0, rets, ev) is None:
                have.add(f.id)
                changed = True
    return have


def local_flows_from(fn, dst_local, src_pred, depth=12):
    """Backward slice: does the value of dst_local derive (through use/ref/cast/field copies/calls'
    arguments) from a definition satisfying src_pred(stmt_or_term)?  Returns the matching def or None."""
    seen = set()
    work = [dst_local]
    while work and depth > 0:
        depth -= 1
        nxt = []
        for l in work:
            if l in seen:
                continue
            seen.add(l)
            for d in local_defs(fn, l):
                if src_pred(d):
                    return d
                if hasattr(d, "rv"):
                    for p in d.reads():
                        nxt.append(p.local)
                else:
                    for p in d.arg_places():
                        if p is not None:
                            nxt.append(p.local)
        work = nxt
    return None


def result_branch(fn, call_term, max_hops=6):
    """Follow the Result/Option produced by call_term through adapter calls (map_err, to_owned, Try::branch,
    as_ref ...) to the switch that separates success from failure.
    Returns (ok_target, err_target) or raises AnchorError."""
    t = call_term
    for _ in range(max_hops):
        sw = switch_on_call_result(fn, t)
        if sw is not None:
            arms = sw["arms"]
            for ok, err in (("Continue", "Break"), ("Ok", "Err"), ("Some", "None")):
                if ok in arms and err in arms:
                    return arms[ok], arms[err]
        # next hop: a call that consumes the destination as its first argument
        nxt = None
        if t.dst is None:
            break
        aliases = {t.dst.local}
        for s in fn.stmts():
            if s.rv in ("use", "ref") and s.dst is not None and not s.dst.proj:
                q = op_place(s.ops[0]) if s.rv == "use" else s.place
                if q is not None and q.local in aliases:
                    aliases.add(s.dst.local)
        for c in fn.calls():
            if c is t or not c.args:
                continue
            a = op_place(c.args[0])
            if a is not None and a.local in aliases and fn.dominates(t.bb, c.bb):
                nxt = c
                break
        if nxt is None:
            break
        t = nxt
    raise AnchorError("the result of %s in %s is not branched on" % (call_term.callee, fn.id))


def forward_flow(fn, start_local, sink_pred, through_calls=True, max_iter=40):
    """Forward may-flow: does the value in start_local reach a call satisfying sink_pred (as an argument),
    or the return place?  Flows through copies/refs/casts/aggregates/field reads and through calls
    (argument -> destination).  Returns ('sink', term) / ('return', None) / None."""
    tainted = {start_local}
    for _ in range(max_iter):
        grew = False
        for b in fn.blocks:
            for s in b.stmts:
                if s.dst is None:
                    continue
                if any(p.local in tainted for p in s.reads()):
                    if s.dst.local not in tainted:
                        tainted.add(s.dst.local)
                        grew = True
            t = b.term
            if t.op == "call":
                hit = any(p is not None and p.local in tainted for p in t.arg_places())
                if hit:
                    if sink_pred(t):
                        return ("sink", t)
                    if through_calls and t.dst is not None and t.dst.local not in tainted:
                        tainted.add(t.dst.local)
                        grew = True
        if 0 in tainted:
            return ("return", None)
        if not grew:
            break
    return None


# ---------------------------------------------------------------- private-helper cones
def owner_cone(fb, roots, crates=None):
    """The set of function ids 'owned' by `roots`: the roots, their closures, and (transitively) every non-public
    function whose callers all lie in the cone. Extracting part of an owner into a private helper, or turning a closure
    into a named private fn, keeps the code inside the cone; a public function or one with an outside caller is not
    absorbed."""
    roots = [r if isinstance(r, str) else r.id for r in roots]
    cone = set(roots)
    callers = {}
    for g in fb.fns.values():
        o = g.root or g.id
        for t in g.calls():
            if t.callee in fb.fns:
                callers.setdefault(fb.fns[t.callee].root or t.callee, set()).add(o)
            # functions passed by name (`.map(helper)`, `.contains(is_ws)`) are used by the caller as well
            for a in t.args:
                c = a.get("const") if isinstance(a, dict) else None
                if c and c.get("fn") in fb.fns:
                    callers.setdefault(c["fn"], set()).add(o)
        for s in g.stmts():
            for a in s.ops:
                c = a.get("const") if isinstance(a, dict) else None
                if c and c.get("fn") in fb.fns:
                    callers.setdefault(c["fn"], set()).add(o)
    changed = True
    while changed:
        changed = False
        for g in fb.fns.values():
            gid = g.root or g.id
            if gid in cone or g.root:
                continue
            if crates and g.crate not in crates:
                continue
            if g.j.get("vis") == "pub" and not g.j.get("impl_for") is None and False:
                continue
            if g.j.get("vis") == "pub":
                continue
            cs = callers.get(gid, set())
            if cs and cs <= cone:
                cone.add(gid)
                changed = True
    return cone


def cone_fns(fb, cone):
    """all bodies (functions and their closures) belonging to a cone"""
    return [g for g in fb.fns.values() if (g.root or g.id) in cone]


def lifted_blocks(fb, f, pred, cone=None, depth=3):
    """Blocks of `f` at which an event satisfying pred(term_or_stmt, owner_fn) happens, either in `f` itself or inside
    a call made from that block to a member of f's private-helper cone (transitively), or in a closure built in that
    block. 'May' semantics: the event occurs on some path of the helper."""
    cone = cone if cone is not None else owner_cone(fb, [f.root or f.id])
    memo = {}

    def may(g, d):
        if g.id in memo:
            return memo[g.id]
        memo[g.id] = False
        r = False
        for b in g.blocks:
            for s in b.stmts:
                if pred(s, g):
                    r = True
            t = b.term
            if pred(t, g):
                r = True
            if not r and d > 0 and t.op == "call" and t.callee in fb.fns and (fb.fns[t.callee].root or t.callee) in cone \
                    and fb.fns[t.callee] is not g:
                r = may(fb.fns[t.callee], d - 1)
            if r:
                break
        if not r and d > 0:
            for c in fb.closures_of(g):
                if may(c, d - 1):
                    r = True
                    break
        memo[g.id] = r
        return r

    out = []
    for b in f.blocks:
        hit = any(pred(s, f) for s in b.stmts) or pred(b.term, f)
        t = b.term
        if not hit and t.op == "call" and t.callee in fb.fns and (fb.fns[t.callee].root or t.callee) in cone and fb.fns[t.callee] is not f:
            hit = may(fb.fns[t.callee], depth - 1)
        if not hit:
            for s in b.stmts:
                if s.rv == "aggregate" and s.j.get("agg") in ("closure", "coroutine_closure") and s.j.get("def") in fb.fns:
                    if may(fb.fns[s.j["def"]], depth - 1):
                        hit = True
        if hit:
            out.append(b.i)
    return out
