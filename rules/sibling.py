"""SIBLING: per-variant attribute vectors of functions that match over the same enum."""
import re
from rulelib import *
from factbase import op_place, op_const

EMIT = r"string::String::(push_str|push)$|alloc::fmt::format$|fmt::format$|ToString>?::to_string$|fmt::Write>?::write_(str|fmt)$|string::String::(from|new)$|Iterator::collect$|\[.*\]>::join$|slice::<impl \[T\]>::join$"


def arm_regions(fn, sw):
    """variant -> set of blocks dominated by the arm's entry (the arm body)"""
    out = {}
    by_target = {}
    for v, tgt in sw["arms"].items():
        by_target.setdefault(tgt, []).append(v)
    for tgt, vs in by_target.items():
        region = {b for b in range(len(fn.blocks)) if fn.dominates(tgt, b) and not fn.blocks[b].cleanup}
        for v in vs:
            out[v] = region
    return out


def region_closures(fb, fn, region):
    out = []
    for b in region:
        for s in fn.blocks[b].stmts:
            if s.rv == "aggregate" and s.j.get("agg") in ("closure", "coroutine_closure"):
                c = fb.fns.get(s.j["def"])
                if c is not None:
                    out.append(c)
                    out += fb.closures_of(c)
    return out


def attributes(fb, fn, sw, recurse_rx, extra_fns=()):
    """variant -> dict(emits, panics_only, recurses, fields, calls, shared_with)"""
    regs = arm_regions(fn, sw)
    res = {}
    for v, region in regs.items():
        bodies = [(fn, region)] + [(c, set(range(len(c.blocks)))) for c in region_closures(fb, fn, region)]
        # private helpers of the same file that the arm calls (an extracted `push_field_line`) are part of the arm
        seen_h = set()
        for _ in range(2):
            for g, reg in list(bodies):
                for b in reg:
                    t = g.blocks[b].term
                    if t.op != "call" or t.callee not in fb.fns:
                        continue
                    h = fb.fns[t.callee]
                    if h.id in seen_h or h is fn or h.j.get("vis") == "pub" or h.file != fn.file or re.search(recurse_rx, h.id):
                        continue
                    seen_h.add(h.id)
                    bodies.append((h, set(range(len(h.blocks)))))
                    for c in fb.closures_of(h):
                        bodies.append((c, set(range(len(c.blocks)))))
        emits = False
        recurses = False
        fields = set()
        calls = set()
        consts = []
        for g, reg in bodies:
            for b in reg:
                blk = g.blocks[b]
                if blk.cleanup:
                    continue
                for s in blk.stmts:
                    for p in [s.dst] + s.reads():
                        if p is not None:
                            fields.update(x for x in p.fields() if not x.isdigit())
                    for o in s.ops:
                        c = op_const(o)
                        if c and "str" in c:
                            consts.append(c["str"])
                t = blk.term
                if t.op == "call":
                    name = t.callee or t.declared or ""
                    calls.add(name)
                    if re.search(EMIT, name):
                        # String::new / "".to_string() of an empty literal is not an emission
                        emits = True
                    if re.search(recurse_rx, name):
                        recurses = True
                    for a in t.args:
                        c = op_const(a)
                        if c and "str" in c:
                            consts.append(c["str"])
                        p = op_place(a)
                        if p is not None:
                            fields.update(x for x in p.fields() if not x.isdigit())
        # an arm that only produces the empty string emits nothing
        nonempty_consts = [c for c in consts if c != ""]
        if emits and not nonempty_consts and not recurses and not any(
                re.search(r"alloc::fmt::format$|fmt::format$|push", c) for c in calls):
            emits = False
        exits = any(fn.blocks[b].term.op in ("return", "goto") and any(
            s not in region for s in fn.blocks[b].term.succs()) or fn.blocks[b].term.op == "return" for b in region)
        panics = any(re.search(r"core::panicking::|rt::panic_fmt|rt::begin_panic", c) for c in calls)
        res[v] = {"emits": emits, "panics_only": panics and not exits, "recurses": recurses, "fields": fields,
                  "calls": calls, "shared_with": sorted(x for x, r in regs.items() if r is region and x != v)}
    return res
