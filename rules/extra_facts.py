"""Non-MIR fact extraction (E2 syn, E3 ts). Filled in as engines are added."""


def extract_extra(repo, outdir, log):
    return
