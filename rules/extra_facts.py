"""Non-MIR fact extraction (E2 syn, E3 ts)."""
import os


def extract_extra(repo, outdir, log):
    import facts as F
    tool = F.tool_path("synfacts")
    os.makedirs(os.path.join(outdir, "syn"), exist_ok=True)
    out = os.path.join(outdir, "syn", "syn.json")
    p = F.run([tool, repo, out], log=log)
    if p.returncode != 0 or not os.path.exists(out):
        raise F.CheckError("synfacts failed: " + p.stdout[-2000:])
